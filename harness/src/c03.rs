//! C03: list, set and hash commands; histories over TCP against the model.
//!
//! The generator is structured: commands of the three families on small colliding
//! pools (typed keys mostly used with their own family, sometimes across families so
//! that WRONGTYPE paths are reached; a string key; a key that is rarely written),
//! indices / counts around 0, +-len, +-(len+-1) and the isize/i64 extremes, duplicate
//! elements, plus a malformed share (arity, non-bulk argument, non-integer).
//! The boundary values that used to crash the server (LREM isize::MIN, SRANDMEMBER i64::MIN,
//! HINCRBY across the i64 range) are part of the pools since the repairs c5f1b6a, 6f35e51,
//! 84546fc, and huge negative SRANDMEMBER counts since 9dd4676 (refused above 2^20 draws).
use crate::resp::V;
use crate::rng::Rng;
use crate::srv::*;
use crate::tok::*;
use std::collections::HashMap;

pub const LKEYS: &[&[u8]] = &[b"l1", b"l2", b""];
pub const SKEYS: &[&[u8]] = &[b"s1", b"s2", b"s3"];
pub const HKEYS: &[&[u8]] = &[b"h1", b"h2", b"\x00\xffb"];
pub const OKEYS: &[&[u8]] = &[b"str1", b"nokey"];
pub const ELEMS: &[&[u8]] = &[b"a", b"b", b"c", b"d", b"", b"10", b"\x00\xff\r\n", b"abc def", b"-5", b"a"];
pub const FIELDS: &[&[u8]] = &[b"f1", b"f2", b"n", b"", b"\xfe"];
pub const HVALUES: &[&[u8]] = &[b"1", b"abc", b"", b"9223372036854775800", b"-9223372036854775800", b"+5", b" 5",
    b"007", b"1.5", b"\x00\xff", b"-1", b"9223372036854775807"];
pub const IDX: &[&[u8]] = &[b"0", b"1", b"-1", b"2", b"-2", b"3", b"-3", b"4", b"-4", b"5", b"-5", b"6", b"-6", b"7", b"-7",
    b"100", b"-100", b"9223372036854775807", b"-9223372036854775808", b"-9223372036854775807", b"x", b"", b"+2", b"1.5",
    b"9223372036854775808"];
pub const LREM_COUNTS: &[&[u8]] = &[b"0", b"1", b"-1", b"2", b"-2", b"3", b"-3", b"100", b"-100", b"9223372036854775807",
    b"-9223372036854775807", b"-9223372036854775808", b"x", b"+1", b"0"];
pub const SRAND_COUNTS: &[&[u8]] = &[b"0", b"1", b"2", b"3", b"4", b"5", b"-1", b"-2", b"-3", b"-5", b"-20", b"100",
    b"9223372036854775807", b"-9223372036854775808", b"x", b"", b"+2",
    // since 9dd4676 more than 2^20 draws are refused: the boundary and far beyond it
    b"-1048577", b"-4000000000000", b"-9223372036854775807"];
pub const SPOP_COUNTS: &[&[u8]] = &[b"0", b"1", b"2", b"3", b"5", b"100", b"18446744073709551615", b"-1", b"x", b"+1",
    b"18446744073709551616"];
pub const INCRS: &[&[u8]] = &[b"1", b"-1", b"5", b"7", b"-7", b"100", b"9223372036854775807", b"-9223372036854775808",
    b"9223372036854775800", b"x", b"1.5", b"", b"+3", b"0"];

fn rust_i64(v: &[u8]) -> Option<i128> { std::str::from_utf8(v).ok().and_then(|s| s.parse::<i64>().ok()).map(|x| x as i128) }

pub struct Gen { pub r: Rng }

impl Gen {
    pub fn new(r: Rng) -> Gen { Gen { r } }
    fn pick(&mut self, p: &[&[u8]]) -> Vec<u8> { self.r.pick(p).to_vec() }
    fn any_key(&mut self) -> Vec<u8> {
        match self.r.below(4) { 0 => self.pick(LKEYS), 1 => self.pick(SKEYS), 2 => self.pick(HKEYS), _ => self.pick(OKEYS) }
    }
    fn key(&mut self, pool: &[&[u8]]) -> Vec<u8> {
        let x = self.r.below(20);
        if x < 15 { self.pick(pool) } else if x < 19 { self.any_key() } else { b"nokey".to_vec() }
    }
    fn elems(&mut self, max: u64) -> Vec<Vec<u8>> { let n = 1 + self.r.below(max); (0..n).map(|_| self.pick(ELEMS)).collect() }

    pub fn cmd(&mut self) -> Vec<Vec<u8>> {
        let v = |x: &[u8]| x.to_vec();
        match self.r.below(100) {
            // ---------------- lists
            0..=5 => { let k = self.key(LKEYS); let mut c = vec![v(b"RPUSH"), k]; c.extend(self.elems(4)); c }
            6..=9 => { let k = self.key(LKEYS); let mut c = vec![v(b"LPUSH"), k]; c.extend(self.elems(4)); c }
            10..=12 => vec![v(b"LPOP"), self.key(LKEYS)],
            13..=15 => vec![v(b"RPOP"), self.key(LKEYS)],
            16 => vec![v(b"LLEN"), self.key(LKEYS)],
            17..=21 => vec![v(b"LRANGE"), self.key(LKEYS), self.pick(IDX), self.pick(IDX)],
            22..=24 => vec![v(b"LINDEX"), self.key(LKEYS), self.pick(IDX)],
            25..=27 => vec![v(b"LSET"), self.key(LKEYS), self.pick(IDX), self.pick(ELEMS)],
            28..=31 => vec![v(b"LTRIM"), self.key(LKEYS), self.pick(IDX), self.pick(IDX)],
            32..=35 => vec![v(b"LREM"), self.key(LKEYS), self.pick(LREM_COUNTS), self.pick(ELEMS)],
            // ---------------- sets
            36..=41 => { let k = self.key(SKEYS); let mut c = vec![v(b"SADD"), k]; c.extend(self.elems(4)); c }
            42..=45 => { let k = self.key(SKEYS); let mut c = vec![v(b"SREM"), k]; c.extend(self.elems(3)); c }
            46..=47 => vec![v(b"SMEMBERS"), self.key(SKEYS)],
            48..=49 => vec![v(b"SISMEMBER"), self.key(SKEYS), self.pick(ELEMS)],
            50 => vec![v(b"SCARD"), self.key(SKEYS)],
            51..=59 => {
                let name: &[u8] = match self.r.below(3) { 0 => b"SUNION", 1 => b"SINTER", _ => b"SDIFF" };
                let n = 1 + self.r.below(3); let mut c = vec![v(name)];
                for _ in 0..n { c.push(self.key(SKEYS)); }
                c
            }
            60..=63 => if self.r.chance(1, 3) { vec![v(b"SRANDMEMBER"), self.key(SKEYS)] }
                       else { vec![v(b"SRANDMEMBER"), self.key(SKEYS), self.pick(SRAND_COUNTS)] },
            64..=68 => if self.r.chance(1, 2) { vec![v(b"SPOP"), self.key(SKEYS)] }
                       else { vec![v(b"SPOP"), self.key(SKEYS), self.pick(SPOP_COUNTS)] },
            // ---------------- hashes
            69..=75 => {
                let name: &[u8] = if self.r.chance(1, 4) { b"HMSET" } else { b"HSET" };
                let k = self.key(HKEYS); let n = 1 + self.r.below(3); let mut c = vec![v(name), k.clone()];
                for _ in 0..n { let f = self.pick(FIELDS); let x = self.pick(HVALUES); c.push(f); c.push(x); }
                c
            }
            76..=77 => vec![v(b"HGET"), self.key(HKEYS), self.pick(FIELDS)],
            78..=79 => { let k = self.key(HKEYS); let n = 1 + self.r.below(3); let mut c = vec![v(b"HMGET"), k]; for _ in 0..n { c.push(self.pick(FIELDS)); } c }
            80..=81 => vec![v(b"HGETALL"), self.key(HKEYS)],
            82..=85 => { let k = self.key(HKEYS); let n = 1 + self.r.below(3); let mut c = vec![v(b"HDEL"), k]; for _ in 0..n { c.push(self.pick(FIELDS)); } c }
            86 => vec![v(b"HLEN"), self.key(HKEYS)],
            87 => vec![v(b"HEXISTS"), self.key(HKEYS), self.pick(FIELDS)],
            88 => vec![v(b"HKEYS"), self.key(HKEYS)],
            89 => vec![v(b"HVALS"), self.key(HKEYS)],
            90..=94 => vec![v(b"HINCRBY"), self.key(HKEYS), self.pick(FIELDS), self.pick(INCRS)],
            // ---------------- other families: keys of another type, removal, deadlines
            95 => vec![v(b"SET"), self.any_key(), self.pick(ELEMS)],
            96 => vec![v(b"DEL"), self.any_key()],
            97 => match self.r.below(3) { 0 => vec![v(b"EXPIRE"), self.any_key(), v(b"100000")], 1 => vec![v(b"PERSIST"), self.any_key()], _ => vec![v(b"TYPE"), self.any_key()] },
            98 => { // drain a collection completely (the key must vanish)
                match self.r.below(4) {
                    0 => { let mut c = vec![v(b"SREM"), self.key(SKEYS)]; c.extend(ELEMS.iter().map(|e| e.to_vec())); c }
                    1 => { let mut c = vec![v(b"HDEL"), self.key(HKEYS)]; c.extend(FIELDS.iter().map(|e| e.to_vec())); c }
                    2 => vec![v(b"LTRIM"), self.key(LKEYS), v(b"5"), v(b"1")],
                    _ => vec![v(b"SPOP"), self.key(SKEYS), v(b"100")],
                }
            }
            _ => { // arity / case
                let k = self.any_key();
                match self.r.below(12) {
                    0 => vec![v(b"LPUSH"), k], 1 => vec![v(b"LRANGE"), k, v(b"0")], 2 => vec![v(b"SADD"), k], 3 => vec![v(b"HSET"), k, v(b"f1")],
                    4 => vec![v(b"HSET"), k, v(b"f1"), v(b"1"), v(b"f2")], 5 => vec![v(b"SPOP"), k, v(b"1"), v(b"2")], 6 => vec![v(b"SUNION")],
                    7 => vec![v(b"lrange"), k, v(b"0"), v(b"-1")], 8 => vec![v(b"HINCRBY"), k, v(b"n")], 9 => vec![v(b"LPOP"), k, v(b"1")],
                    10 => vec![v(b"SRANDMEMBER")], _ => vec![v(b"hGetAll"), k],
                }
            }
        }
    }
}

pub fn all_keys() -> Vec<&'static [u8]> { LKEYS.iter().chain(SKEYS).chain(HKEYS).chain(OKEYS).cloned().collect() }

pub fn dump_ops(conn: i64, ops: &mut Vec<Vec<Tok>>) {
    for k in all_keys() {
        ops.push(cmd_op(conn, &[b"TYPE", k]));
        ops.push(cmd_op(conn, &[b"LRANGE", k, b"0", b"-1"]));
        ops.push(cmd_op(conn, &[b"SMEMBERS", k]));
        ops.push(cmd_op(conn, &[b"HGETALL", k]));
        ops.push(cmd_op(conn, &[b"PTTL", k]));
    }
    ops.push(cmd_op(conn, &[b"GET", b"str1"]));
    ops.push(cmd_op(conn, &[b"KEYS", b"*"]));
    ops.push(cmd_op(conn, &[b"DBSIZE"]));
}

fn push_cmd(ops: &mut Vec<Vec<Tok>>, c: &[Vec<u8>]) { let refs: Vec<&[u8]> = c.iter().map(|x| &x[..]).collect(); ops.push(cmd_op(1, &refs)); }

fn random_case(g: &mut Gen, id: String) -> Case {
    let mut ops = vec![conn_op(1)];
    // seed: keys of every type of this family plus a string
    if g.r.chance(3, 4) {
        let mut c = vec![b"RPUSH".to_vec(), g.pick(LKEYS)]; c.extend(g.elems(7)); push_cmd(&mut ops, &c);
        let mut c = vec![b"SADD".to_vec(), g.pick(SKEYS)]; c.extend(g.elems(6)); push_cmd(&mut ops, &c);
        let mut c = vec![b"SADD".to_vec(), g.pick(SKEYS)]; c.extend(g.elems(4)); push_cmd(&mut ops, &c);
        let k = g.pick(HKEYS); let mut c = vec![b"HSET".to_vec(), k];
        for _ in 0..(1 + g.r.below(3)) { let f = g.pick(FIELDS); let x = g.pick(HVALUES); c.push(f); c.push(x); }
        push_cmd(&mut ops, &c);
        push_cmd(&mut ops, &[b"SET".to_vec(), b"str1".to_vec(), b"v".to_vec()]);
    }
    let big = g.r.chance(1, 4); let len = 1 + g.r.below(if big { 70 } else { 30 });
    for _ in 0..len {
        let c = g.cmd();
        if g.r.chance(1, 40) && c.len() >= 2 {
            // a non-bulk argument (an integer frame) somewhere after the name
            let pos = 1 + g.r.below(c.len() as u64 - 1) as usize;
            let mut fr: Vec<V> = c.iter().map(|a| V::Bulk(a.clone())).collect();
            fr[pos] = if g.r.chance(1, 2) { V::Int(5) } else { V::NullBulk };
            ops.push(cmd_frame_op(1, &V::Array(fr)));
            continue;
        }
        push_cmd(&mut ops, &c);
    }
    dump_ops(1, &mut ops);
    Case { id, ops, outs: vec![] }
}

fn num(x: i64) -> Vec<u8> { x.to_string().into_bytes() }
fn letters(n: i64) -> Vec<Vec<u8>> { (0..n).map(|i| vec![b'a' + i as u8]).collect() }

/// every (start, stop) in [-len-2, len+2]^2 for LRANGE, and LINDEX / LSET over the same span
fn range_sweep(len: i64) -> Case {
    let mut ops = vec![conn_op(1)];
    let mut c = vec![b"RPUSH".to_vec(), b"l1".to_vec()]; c.extend(letters(len)); push_cmd(&mut ops, &c);
    push_cmd(&mut ops, &[b"LLEN".to_vec(), b"l1".to_vec()]);
    for s in -len - 2..=len + 2 {
        for e in -len - 2..=len + 2 { push_cmd(&mut ops, &[b"LRANGE".to_vec(), b"l1".to_vec(), num(s), num(e)]); }
        push_cmd(&mut ops, &[b"LINDEX".to_vec(), b"l1".to_vec(), num(s)]);
        push_cmd(&mut ops, &[b"LSET".to_vec(), b"l1".to_vec(), num(s), b"a".to_vec()]);
    }
    dump_ops(1, &mut ops);
    Case { id: format!("sweep-range-{}", len), ops, outs: vec![] }
}
/// LTRIM over the same square; the list is rebuilt before each trim
fn trim_sweep(len: i64) -> Case {
    let mut ops = vec![conn_op(1)];
    for s in -len - 2..=len + 2 {
        for e in -len - 2..=len + 2 {
            push_cmd(&mut ops, &[b"DEL".to_vec(), b"l1".to_vec()]);
            let mut c = vec![b"RPUSH".to_vec(), b"l1".to_vec()]; c.extend(letters(len)); push_cmd(&mut ops, &c);
            push_cmd(&mut ops, &[b"LTRIM".to_vec(), b"l1".to_vec(), num(s), num(e)]);
            push_cmd(&mut ops, &[b"LRANGE".to_vec(), b"l1".to_vec(), b"0".to_vec(), b"-1".to_vec()]);
            push_cmd(&mut ops, &[b"TYPE".to_vec(), b"l1".to_vec()]);
        }
    }
    dump_ops(1, &mut ops);
    Case { id: format!("sweep-trim-{}", len), ops, outs: vec![] }
}
/// LREM for every count in [-len-1, len+1] on lists with 0..len copies of the element
fn lrem_sweep(len: i64) -> Case {
    let mut ops = vec![conn_op(1)];
    let pats: &[&[u8]] = &[b"xaxax", b"axxa", b"xxx", b"abc", b"x", b"axbxcxd"];
    for p in pats {
        if p.len() as i64 > len + 3 { continue; }
        for cnt in -(p.len() as i64) - 1..=p.len() as i64 + 1 {
            push_cmd(&mut ops, &[b"DEL".to_vec(), b"l1".to_vec()]);
            let mut c = vec![b"RPUSH".to_vec(), b"l1".to_vec()]; c.extend(p.iter().map(|b| vec![*b])); push_cmd(&mut ops, &c);
            push_cmd(&mut ops, &[b"LREM".to_vec(), b"l1".to_vec(), num(cnt), b"x".to_vec()]);
            push_cmd(&mut ops, &[b"LRANGE".to_vec(), b"l1".to_vec(), b"0".to_vec(), b"-1".to_vec()]);
        }
    }
    dump_ops(1, &mut ops);
    Case { id: format!("sweep-lrem-{}", len), ops, outs: vec![] }
}
/// set algebra over every combination of {missing, set A, set B, string} for 1..3 keys
fn algebra_sweep() -> Case {
    let mut ops = vec![conn_op(1)];
    push_cmd(&mut ops, &[b"SADD".to_vec(), b"s1".to_vec(), b"a".to_vec(), b"b".to_vec(), b"c".to_vec()]);
    push_cmd(&mut ops, &[b"SADD".to_vec(), b"s2".to_vec(), b"b".to_vec(), b"c".to_vec(), b"d".to_vec()]);
    push_cmd(&mut ops, &[b"SET".to_vec(), b"str1".to_vec(), b"v".to_vec()]);
    let ks: &[&[u8]] = &[b"nokey", b"s1", b"s2", b"str1"];
    for name in [&b"SUNION"[..], b"SINTER", b"SDIFF"] {
        for a in ks { push_cmd(&mut ops, &[name.to_vec(), a.to_vec()]);
            for b2 in ks { push_cmd(&mut ops, &[name.to_vec(), a.to_vec(), b2.to_vec()]);
                for c in ks { push_cmd(&mut ops, &[name.to_vec(), a.to_vec(), b2.to_vec(), c.to_vec()]); } } }
    }
    dump_ops(1, &mut ops);
    Case { id: "sweep-algebra".to_string(), ops, outs: vec![] }
}

pub fn gen(seed: u64, n: usize, tier: &str) -> Vec<Case> {
    let mut g = Gen::new(Rng::new(seed));
    let mut cases = vec![];
    // systematic part (a test of the tie; the unbounded claims are the theorems)
    let maxlen = if tier == "thorough" { 5 } else { 3 };
    for len in 1..=maxlen { cases.push(range_sweep(len)); }
    for len in (if tier == "thorough" { 1 } else { 3 })..=maxlen { cases.push(trim_sweep(len)); }
    cases.push(lrem_sweep(if tier == "thorough" { 5 } else { 2 }));
    cases.push(algebra_sweep());
    for id in 0..n { let c = random_case(&mut g, format!("h-{}", id)); cases.push(c); }
    cases
}

/// As srv::run_case; additionally, once a connection was found closed, waits (up to 5 s) for the
/// server process to finish dying so that the final liveness line is deterministic.
pub fn run(c: &Case) -> Case {
    let mut r = Runner::new(&SrvOpts::default());
    let mut out = Case { id: c.id.clone(), ops: vec![], outs: vec![] };
    let mut closed = false;
    for op in &c.ops {
        let (mut o2, mut res) = r.op(op);
        if res.len() == 1 && res[0] == b("CLOSED") { closed = true; }
        if res.len() == 1 && res[0] == b("TIMEOUT") {
            // a starved machine is not a hung server: give the reply 30 more seconds before it counts
            let c = tok_int(&op[1]); let mut pos = 3;
            if let (Some(req), Some(cl)) = (V::dec(op, &mut pos), r.conns.get_mut(&c)) {
                if let crate::resp::Rd::Val(v) = cl.read(30000) {
                    let nm = req_name(&req);
                    if nm == b"SPOP" || nm == b"SRANDMEMBER" { v.enc(&mut o2); }
                    res = vec![]; canon_reply(&nm, v).enc(&mut res);
                }
            }
        }
        out.ops.push(o2); out.outs.push(res);
    }
    if closed {
        let t0 = std::time::Instant::now();
        while r.srv.alive() && t0.elapsed() < std::time::Duration::from_secs(5) { std::thread::sleep(std::time::Duration::from_millis(10)); }
    }
    // no drift discard: the only deadlines these histories set are 100000 s away and PTTL is compared
    // by sign, so real time running ahead of the logical clock cannot change any output
    let alive = r.finish();
    if !alive { out.ops.push(vec![b("ALIVE")]); out.outs.push(vec![i(0)]); }
    out
}

// ---------------------------------------------------------------- property oracle
fn dec_reply(out: &[Tok]) -> Option<V> { let mut p = 0; V::dec(out, &mut p) }
fn cmd_of(op: &[Tok]) -> Option<Vec<Vec<u8>>> {
    if op.len() < 4 || tok_bytes(&op[0]) != b"CMD" { return None; }
    let mut p = 3;
    match V::dec(op, &mut p)? { V::Array(l) => l.into_iter().map(|x| match x { V::Bulk(b) => Some(b), _ => None }).collect(), _ => None }
}
fn bulks(v: &V) -> Option<Vec<Vec<u8>>> {
    match v { V::Array(l) => l.iter().map(|x| match x { V::Bulk(b) => Some(b.clone()), _ => None }).collect(), _ => None }
}

/// Independent of the model: checks on the implementation's own outputs.
///  * a key whose TYPE is list/set/hash answers a non-empty LRANGE 0 -1 / SMEMBERS / HGETALL right after,
///    a key whose TYPE is none answers empty ones (no empty collection is stored, nothing readable is hidden);
///  * SMEMBERS / HKEYS replies have no duplicates;
///  * SPOP / SRANDMEMBER results are members according to the last SMEMBERS of that key when no write to the
///    key came in between;
///  * LRANGE k s e with e < -len (len from a preceding LLEN) is empty (regression oracle of 2b792ef).
pub fn judge(c: &Case, outs: &[Vec<Tok>]) -> Vec<String> {
    let mut fails = vec![];
    let mut last_type: Option<(Vec<u8>, Vec<u8>)> = None;
    let mut members: HashMap<Vec<u8>, Vec<Vec<u8>>> = HashMap::new();
    let mut llen: Option<(Vec<u8>, i64)> = None;
    for (k, op) in c.ops.iter().enumerate() {
        let out = match outs.get(k) { Some(o) => o, None => break };
        let cmd = match cmd_of(op) { Some(c) if !c.is_empty() => c, _ => { last_type = None; continue } };
        let name = cmd[0].to_ascii_uppercase();
        let reply = match dec_reply(out) { Some(r) => r, None => continue };
        let key = cmd.get(1).cloned().unwrap_or_default();
        let fail = |what: &str| format!("FAIL case={} op={} {}", c.id, k, what);
        match &name[..] {
            b"TYPE" => { if let V::Simple(t) = &reply { last_type = Some((key.clone(), t.clone())); } continue; }
            b"LRANGE" | b"SMEMBERS" | b"HGETALL" => {
                if let Some((tk, t)) = &last_type {
                    if *tk == key && (name != b"LRANGE" || (cmd.len() == 4 && cmd[2] == b"0" && cmd[3] == b"-1")) {
                        let mine: &[u8] = match &name[..] { b"LRANGE" => b"list", b"SMEMBERS" => b"set", _ => b"hash" };
                        if let V::Array(l) = &reply {
                            if &t[..] == mine && l.is_empty() { fails.push(fail("empty collection stored")); }
                            if &t[..] == b"none" && !l.is_empty() { fails.push(fail("key of type none has content")); }
                        }
                    }
                }
                if name == b"SMEMBERS" {
                    if let Some(ms) = bulks(&reply) {
                        let mut s = ms.clone(); s.sort(); s.dedup();
                        if s.len() != ms.len() { fails.push(fail("duplicate member in SMEMBERS")); }
                        members.insert(key.clone(), ms);
                    }
                }
                if name == b"LRANGE" && cmd.len() == 4 {
                    if let (Some((lk, n)), Some(e)) = (&llen, rust_i64(&cmd[3])) {
                        if *lk == key && e < -(*n as i128) {
                            if let V::Array(l) = &reply { if !l.is_empty() { fails.push(fail("LRANGE with stop below -len is not empty")); } }
                        }
                    }
                }
            }
            b"HKEYS" => { if let Some(ms) = bulks(&reply) { let mut s = ms.clone(); s.sort(); s.dedup(); if s.len() != ms.len() { fails.push(fail("duplicate field in HKEYS")); } } }
            b"LLEN" => { if let V::Int(n) = reply { llen = Some((key.clone(), n)); } continue; }
            b"SPOP" | b"SRANDMEMBER" => {
                if let Some(ms) = members.get(&key) {
                    let got: Vec<Vec<u8>> = match &reply { V::Bulk(b) => vec![b.clone()], r => bulks(r).unwrap_or_default() };
                    for m in &got { if !ms.contains(m) { fails.push(fail("random pick is not a member")); } }
                    if name == b"SPOP" || cmd.get(2).and_then(|c| rust_i64(c)).map_or(true, |c| c >= 0) {
                        let mut s = got.clone(); s.sort(); s.dedup();
                        if s.len() != got.len() { fails.push(fail("random pick repeats a member")); }
                    }
                }
                if name == b"SPOP" { members.remove(&key); }
            }
            b"SADD" | b"SREM" | b"DEL" | b"SET" | b"FLUSHDB" | b"FLUSHALL" => { members.remove(&key); }
            _ => {}
        }
        if !matches!(&name[..], b"LRANGE" | b"LINDEX" | b"LSET") { llen = None; }
        if !matches!(&name[..], b"LRANGE" | b"SMEMBERS" | b"HGETALL" | b"PTTL") { last_type = None; }
    }
    fails
}
