//! C04: sorted sets.  Two kinds of case:
//!  * `sl-*`: in-process histories on `ferrous::storage::skiplist::SkipList<Vec<u8>, f64>`
//!    (insert/remove/get_score/get_rank/get_by_rank/range_by_rank/range_by_score), the state
//!    compared after every mutation: through the public API (`SLDUMP 0`) or, with the cargo
//!    feature `sl_hook` (needs patches/hook-skiplist-dump.diff applied to /repo), through
//!    `SkipList::verif_dump()` (`SLDUMP 1`: all levels, heights, length, level, key_index) -
//!    the model is then given the height the implementation drew;
//!  * `z-*`, `nan-*`: command histories over TCP (ZADD .. ZPOPMAX mixed with DEL/EXPIRE/RENAME/
//!    TYPE), ending with a dump of every pool key.
//! Score text <-> f64 is an oracle: every bulk argument's `parse::<f64>()` bits are appended
//! to the operation, score replies are compared as bits after re-parsing the text.
use crate::resp::V;
use crate::rng::Rng;
use crate::srv::*;
use crate::tok::*;
use ferrous::storage::skiplist::SkipList;

pub const HOOK: bool = cfg!(feature = "sl_hook");

// ------------------------------------------------------------------ pools
pub const ZKEYS: &[&[u8]] = &[b"z1", b"z2", b"z3", b"", b"z\x00\xff"];
pub const STRKEY: &[u8] = b"s1";
pub const MEMBERS: &[&[u8]] = &[b"a", b"b", b"c", b"d", b"aa", b"", b"\x00", b"\xff\x80", b"B", b"ab"];
/// score texts that parse; the two infinities are filtered per case (see `scores_for`)
pub const SCORES_OK: &[&[u8]] = &[b"0", b"-0", b"1", b"-1", b"1.5", b"2", b"3", b"1e0", b"1.0", b"+1", b"-1.5", b"2.5",
    b"9007199254740992", b"9007199254740993", b"9007199254740994", b"5e-324", b"-5e-324", b"1.7976931348623157e308",
    b"-1.7976931348623157e308", b"0.1", b"0.30000000000000004", b"0.3", b".5", b"5.", b"1e-7", b"100", b"-100", b"1E2"];
pub const PINF: &[&[u8]] = &[b"inf", b"+inf", b"Infinity", b"1e400", b"INF"];
pub const NINF: &[&[u8]] = &[b"-inf", b"-Infinity", b"-1e400"];
pub const SCORES_BAD: &[&[u8]] = &[b"abc", b"", b" 1", b"1 ", b"0x10", b"1_000", b"1e", b"--1", b"(1", b"1,5", b"\xef\xbc\x91", b"\xff"];
pub const INCRS: &[&[u8]] = &[b"1", b"-1", b"0.5", b"0", b"-0", b"2.5", b"9007199254740992", b"1e-300", b"-2", b"0.1", b"0.2"];
pub const BOUNDS: &[&[u8]] = &[b"-inf", b"inf", b"+inf", b"0", b"-0", b"1", b"-1", b"1.5", b"2", b"3", b"2.5", b"100", b"-100", b"nan",
    b"9007199254740992", b"9007199254740993", b"5e-324", b"0.1", b"(1", b"abc", b"", b"1.7976931348623157e308", b"-1.5"];
pub const IDX: &[&[u8]] = &[b"0", b"1", b"-1", b"2", b"-2", b"3", b"-3", b"4", b"-4", b"5", b"-5", b"6", b"-6", b"10", b"-10", b"100", b"-100",
    b"9223372036854775807", b"-9223372036854775808", b"9223372036854775808", b"x", b"", b"+1", b"1.0"];
pub const COUNTS: &[&[u8]] = &[b"0", b"1", b"2", b"3", b"10", b"18446744073709551615", b"-1", b"abc", b"", b"+2", b"18446744073709551616"];

fn pick<'a>(r: &mut Rng, p: &'a [&'a [u8]]) -> &'a [u8] { *r.pick(p) }

struct Ctx { pos_inf: bool }
impl Ctx {
    /// a score text: mostly valid; only one sign of infinity per case so that no sum can be NaN
    fn score<'a>(&self, r: &mut Rng) -> &'a [u8] {
        match r.below(20) {
            0 => pick(r, SCORES_BAD),
            1 | 2 => if self.pos_inf { pick(r, PINF) } else { pick(r, NINF) },
            _ => pick(r, SCORES_OK),
        }
    }
    fn incr<'a>(&self, r: &mut Rng) -> &'a [u8] {
        match r.below(16) {
            0 => pick(r, SCORES_BAD),
            1 => if self.pos_inf { pick(r, PINF) } else { pick(r, NINF) },
            _ => pick(r, INCRS),
        }
    }
}
fn zkey<'a>(r: &mut Rng) -> &'a [u8] {
    match r.below(18) { 0 => STRKEY, 1 => b"nokey", 2..=10 => b"z1", 11 | 12 => b"z2", _ => pick(r, ZKEYS) }
}
fn member<'a>(r: &mut Rng) -> &'a [u8] { if r.chance(7, 10) { *r.pick(&MEMBERS[..4]) } else { pick(r, MEMBERS) } }
const LOWS: &[&[u8]] = &[b"-inf", b"-100", b"-1.5", b"-1", b"-0", b"0", b"1", b"-1.7976931348623157e308"];
const HIGHS: &[&[u8]] = &[b"1", b"1.5", b"2", b"3", b"100", b"inf", b"+inf", b"9007199254740993", b"0", b"2.5"];
/// (first, second) score bounds: half of the time an ordered valid pair
fn bounds<'a>(r: &mut Rng, reversed: bool) -> (&'a [u8], &'a [u8]) {
    if r.chance(1, 2) { let (lo, hi) = (pick(r, LOWS), pick(r, HIGHS)); if reversed { (hi, lo) } else { (lo, hi) } }
    else { (pick(r, BOUNDS), pick(r, BOUNDS)) }
}

fn gen_cmd(r: &mut Rng, cx: &Ctx) -> Vec<Vec<u8>> {
    let v = |x: &[u8]| x.to_vec();
    let k = zkey(r);
    match r.below(64) {
        0..=15 => { // ZADD, 1..4 pairs
            let n = if r.chance(2, 3) { 1 } else { 2 + r.below(3) };
            let mut c = vec![v(b"ZADD"), v(k)];
            for _ in 0..n { c.push(v(cx.score(r))); c.push(v(member(r))); }
            if r.chance(1, 25) { c.pop(); }
            c
        }
        16..=20 => { let n = 1 + r.below(3); let mut c = vec![v(b"ZREM"), v(k)]; for _ in 0..n { c.push(v(member(r))); } c }
        21..=23 => vec![v(b"ZSCORE"), v(k), v(member(r))],
        24 | 25 => vec![v(b"ZCARD"), v(k)],
        26..=28 => vec![v(b"ZRANK"), v(k), v(member(r))],
        29..=31 => vec![v(b"ZREVRANK"), v(k), v(member(r))],
        32..=37 => { // ZRANGE / ZREVRANGE
            let mut c = vec![v(if r.chance(1, 2) { b"ZRANGE" } else { b"ZREVRANGE" }), v(k), v(pick(r, IDX)), v(pick(r, IDX))];
            match r.below(8) { 0..=2 => c.push(v(b"WITHSCORES")), 3 => c.push(v(b"withscores")), 4 => c.push(v(b"BOGUS")), _ => {} }
            c
        }
        38..=43 => { // by score
            let rev = r.chance(1, 2); let (b1, b2) = bounds(r, rev);
            let mut c = vec![v(if rev { b"ZREVRANGEBYSCORE" } else { b"ZRANGEBYSCORE" }), v(k), v(b1), v(b2)];
            match r.below(8) { 0..=2 => c.push(v(b"WITHSCORES")), 3 => c.push(v(b"LIMIT")), _ => {} }
            c
        }
        44..=46 => { let (b1, b2) = bounds(r, false); vec![v(b"ZCOUNT"), v(k), v(b1), v(b2)] }
        47..=52 => vec![v(b"ZINCRBY"), v(k), v(cx.incr(r)), v(member(r))],
        53..=56 => { // ZPOPMIN / ZPOPMAX
            let mut c = vec![v(if r.chance(1, 2) { b"ZPOPMIN" } else { b"ZPOPMAX" }), v(k)];
            if r.chance(1, 2) { c.push(v(pick(r, COUNTS))); }
            c
        }
        57 => vec![v(b"DEL"), v(k)],
        58 => vec![v(b"EXPIRE"), v(k), v(b"100000")],
        59 => vec![v(b"RENAME"), v(k), v(zkey(r))],
        60 => vec![v(b"TYPE"), v(k)],
        61 => vec![v(b"EXISTS"), v(k)],
        62 => vec![v(b"PERSIST"), v(k)],
        _ => { // arity errors / case variations
            match r.below(10) {
                0 => vec![v(b"ZADD"), v(k)], 1 => vec![v(b"ZADD"), v(k), v(b"1")], 2 => vec![v(b"ZREM"), v(k)], 3 => vec![v(b"ZSCORE"), v(k)],
                4 => vec![v(b"ZRANGE"), v(k), v(b"0")], 5 => vec![v(b"ZRANGE"), v(k), v(b"0"), v(b"-1"), v(b"WITHSCORES"), v(b"x")],
                6 => vec![v(b"ZCOUNT"), v(k), v(b"0")], 7 => vec![v(b"ZINCRBY"), v(k), v(b"1")], 8 => vec![v(b"ZPOPMIN")],
                _ => vec![v(b"zadd"), v(k), v(b"1"), v(member(r))],
            }
        }
    }
}

pub fn dump_ops(conn: i64, ops: &mut Vec<Vec<Tok>>) {
    let all: Vec<&[u8]> = ZKEYS.iter().cloned().chain([STRKEY]).collect();
    for k in all {
        ops.push(cmd_op(conn, &[b"TYPE", k]));
        ops.push(cmd_op(conn, &[b"ZRANGE", k, b"0", b"-1", b"WITHSCORES"]));
        ops.push(cmd_op(conn, &[b"ZCARD", k]));
        ops.push(cmd_op(conn, &[b"PTTL", k]));
    }
    ops.push(cmd_op(conn, &[b"KEYS", b"*"]));
    ops.push(cmd_op(conn, &[b"DBSIZE"]));
}

fn push_cmd(r: &mut Rng, ops: &mut Vec<Vec<Tok>>, c: &[Vec<u8>]) {
    let refs: Vec<&[u8]> = c.iter().map(|x| &x[..]).collect();
    if r.chance(1, 40) && refs.len() >= 2 { // a non-bulk argument
        let pos = 1 + r.below(refs.len() as u64 - 1) as usize;
        let mut fr: Vec<V> = refs.iter().map(|a| V::Bulk(a.to_vec())).collect();
        fr[pos] = if r.chance(1, 2) { V::Int(5) } else { V::NullBulk };
        ops.push(cmd_frame_op(1, &V::Array(fr)));
    } else {
        ops.push(cmd_op(1, &refs));
    }
}

fn gen_tcp_case(r: &mut Rng, id: usize) -> Case {
    let cx = Ctx { pos_inf: r.chance(1, 2) };
    let mut ops = vec![conn_op(1)];
    if r.chance(1, 2) { ops.push(cmd_op(1, &[b"SET", STRKEY, b"str"])); }
    // seed a few members so that reads meet populated sets early
    for key in [&b"z1"[..], b"z2"] {
        if r.chance(3, 4) {
            let n = 1 + r.below(7);
            let mut c: Vec<Vec<u8>> = vec![b"ZADD".to_vec(), key.to_vec()];
            for _ in 0..n { c.push(pick(r, SCORES_OK).to_vec()); c.push(member(r).to_vec()); }
            push_cmd(r, &mut ops, &c);
        }
    }
    let big = r.chance(1, 4); let len = 1 + r.below(if big { 60 } else { 25 });
    for _ in 0..len { let c = gen_cmd(r, &cx); push_cmd(r, &mut ops, &c); }
    dump_ops(1, &mut ops);
    Case { id: format!("z-{}", id), ops, outs: vec![] }
}

/// NaN histories (finding class zset-nan): NaN gets stored, then only reads and
/// operations on other members (the command-level model is exact on these)
fn gen_nan_case(r: &mut Rng, id: usize) -> Case {
    let mut ops = vec![conn_op(1)];
    let k: &[u8] = b"z1";
    let m = member(r);
    for _ in 0..r.below(3) { ops.push(cmd_op(1, &[b"ZADD", k, pick(r, SCORES_OK), *r.pick(&[&b"x"[..], b"y", b"zz"])])); }
    if r.chance(1, 2) {
        ops.push(cmd_op(1, &[b"ZADD", k, *r.pick(&[&b"nan"[..], b"NaN", b"-nan", b"NAN"]), m]));
    } else {
        let (a, b): (&[u8], &[u8]) = if r.chance(1, 2) { (b"inf", b"-inf") } else { (b"-inf", b"inf") };
        ops.push(cmd_op(1, &[b"ZADD", k, a, m]));
        ops.push(cmd_op(1, &[b"ZINCRBY", k, b, m]));
    }
    for _ in 0..(2 + r.below(8)) {
        let c: Vec<&[u8]> = match r.below(9) {
            0 => vec![b"ZSCORE", k, m], 1 => vec![b"ZRANK", k, m], 2 => vec![b"ZREVRANK", k, m], 3 => vec![b"ZCARD", k],
            4 => vec![b"ZRANGE", k, b"0", b"-1", b"WITHSCORES"], 5 => vec![b"ZRANGEBYSCORE", k, b"-inf", b"inf", b"WITHSCORES"],
            6 => vec![b"ZCOUNT", k, pick(r, BOUNDS), pick(r, BOUNDS)],
            7 => vec![b"ZADD", k, pick(r, SCORES_OK), *r.pick(&[&b"x"[..], b"y", b"zz"])],
            _ => vec![b"ZREVRANGE", k, b"0", b"-1", b"WITHSCORES"],
        };
        ops.push(cmd_op(1, &c));
    }
    dump_ops(1, &mut ops);
    Case { id: format!("nan-{}", id), ops, outs: vec![] }
}

// ------------------------------------------------------------------ skip-list histories
const SL_MEMBERS: &[&[u8]] = &[b"a", b"b", b"c", b"d", b"", b"aa", b"\xff"];
const SL_BITS: &[u64] = &[0, 0x8000000000000000, 0x3ff0000000000000, 0xbff0000000000000, 0x3ff8000000000000, 0x4000000000000000,
    0x7ff0000000000000, 0xfff0000000000000, 1, 0x8000000000000001, 0x4340000000000000, 0x4340000000000001, 0x7fefffffffffffff,
    0x3ff0000000000001, 0x4008000000000000];
const SL_NAN: &[u64] = &[0x7ff8000000000000, 0xfff8000000000000, 0x7ff0000000000001];

fn sl_op(name: &str, rest: Vec<Tok>) -> Vec<Tok> { let mut o = vec![b(name)]; o.extend(rest); o }
fn gen_sl_case(r: &mut Rng, id: usize) -> Case {
    let with_nan = r.chance(1, 3);
    let nmem = 2 + r.below(SL_MEMBERS.len() as u64 - 1) as usize;
    let nbits = 2 + r.below(SL_BITS.len() as u64 - 1) as usize;
    let full = if HOOK { 1 } else { 0 };
    let mut ops = vec![sl_op("SLNEW", vec![])];
    let len = 1 + r.below(40);
    let mut approx_len: u64 = 0;
    for _ in 0..len {
        let m = SL_MEMBERS[r.below(nmem as u64) as usize];
        let bits = if with_nan && r.chance(1, 5) { *r.pick(SL_NAN) } else { SL_BITS[r.below(nbits as u64) as usize] };
        let ranks: Vec<u64> = vec![0, 1, approx_len.saturating_sub(1), approx_len, approx_len + 1, 2, 3, u64::MAX, u64::MAX - 1];
        match r.below(20) {
            0..=8 => { ops.push(sl_op("SLINS", vec![bv(m), Tok::I(bits as i128)])); ops.push(sl_op("SLDUMP", vec![i(full)])); approx_len += 1; }
            9..=12 => { ops.push(sl_op("SLREM", vec![bv(m)])); ops.push(sl_op("SLDUMP", vec![i(full)])); approx_len = approx_len.saturating_sub(1); }
            13 => ops.push(sl_op("SLRANK", vec![bv(m)])),
            14 => ops.push(sl_op("SLSCORE", vec![bv(m)])),
            15 => ops.push(sl_op("SLGBR", vec![Tok::I(*r.pick(&ranks) as i128)])),
            16 | 17 => ops.push(sl_op("SLRBR", vec![Tok::I(*r.pick(&ranks) as i128), Tok::I(*r.pick(&ranks) as i128)])),
            _ => {
                let pool: Vec<u64> = SL_BITS.iter().chain(SL_NAN.iter()).cloned().collect();
                ops.push(sl_op("SLRBS", vec![Tok::I(*r.pick(&pool) as i128), Tok::I(*r.pick(&pool) as i128)]));
            }
        }
    }
    ops.push(sl_op("SLDUMP", vec![i(full)]));
    Case { id: format!("sl-{}", id), ops, outs: vec![] }
}

pub fn gen(seed: u64, n: usize, _tier: &str) -> Vec<Case> {
    let mut r = Rng::new(seed);
    let mut cases = vec![];
    // n command histories; 5 n/2 skip-list histories (cheap, in process)
    for id in 0..n {
        if id % 12 == 11 { cases.push(gen_nan_case(&mut r, id)); } else { cases.push(gen_tcp_case(&mut r, id)); }
    }
    for id in 0..(n * 5 / 2) { cases.push(gen_sl_case(&mut r, id)); }
    cases
}

// ------------------------------------------------------------------ running
fn canon_bits(x: f64) -> i128 { if x.is_nan() { 0x7ff8000000000000u64 as i128 } else { x.to_bits() as i128 } }
fn parse_f64(bytes: &[u8]) -> Option<f64> { String::from_utf8_lossy(bytes).parse::<f64>().ok() }
fn score_of(v: &V) -> V { match v { V::Bulk(t) => match parse_f64(t) { Some(x) => V::Double(f64::from_bits(canon_bits(x) as u64)), None => v.clone() }, _ => v.clone() } }
fn odd_scores(v: V) -> V {
    match v { V::Array(l) => V::Array(l.into_iter().enumerate().map(|(k, x)| if k % 2 == 1 { score_of(&x) } else { x }).collect()), x => x }
}
/// score replies -> bit patterns (mirrors the model, which answers FDouble bits)
pub fn canon_scores(parts: &[V], reply: V) -> V {
    let name = match parts.first() { Some(V::Bulk(b)) => b.to_ascii_uppercase(), _ => return reply };
    let with_scores = parts.len() == 5 && matches!(&parts[4], V::Bulk(o) if String::from_utf8_lossy(o).to_uppercase() == "WITHSCORES");
    match &name[..] {
        b"ZSCORE" | b"ZINCRBY" => score_of(&reply),
        b"ZRANGE" | b"ZREVRANGE" | b"ZRANGEBYSCORE" | b"ZREVRANGEBYSCORE" if with_scores => odd_scores(reply),
        b"ZPOPMIN" | b"ZPOPMAX" => odd_scores(reply),
        _ => reply,
    }
}

fn run_tcp(c: &Case) -> Case {
    let mut r = Runner::new(&SrvOpts::default());
    let mut out = Case { id: c.id.clone(), ops: vec![], outs: vec![] };
    for op in &c.ops {
        let (mut o2, mut res) = r.op(op);
        if tok_bytes(&op[0]) == b"CMD" {
            let mut pos = 3;
            if let Some(V::Array(parts)) = V::dec(op, &mut pos) {
                o2.truncate(pos);   // a re-run operation already carries an oracle: replace it
                // oracle: parse::<f64>() of every bulk argument, aligned with the parts
                let mut orc: Vec<V> = parts.iter().map(|p| match p {
                    V::Bulk(t) => match parse_f64(t) { Some(x) => V::Double(x), None => V::NullBulk }, _ => V::NullBulk }).collect();
                let mut p2 = 0;
                if let Some(reply) = V::dec(&res, &mut p2) {
                    let reply = canon_scores(&parts, reply);
                    if matches!(parts.first(), Some(V::Bulk(n)) if n.to_ascii_uppercase() == b"ZINCRBY") {
                        orc.push(match &reply { V::Double(x) => V::Double(*x), _ => V::NullBulk });
                    }
                    res = vec![]; reply.enc(&mut res);
                }
                V::Array(orc).enc(&mut o2);
            }
        }
        out.ops.push(o2); out.outs.push(res);
    }
    // no reply of this family depends on the clock (deadlines are 100000 s away and PTTL is
    // compared by sign), so a history is kept even when real time drifted from the logical clock
    let alive = r.finish();
    if !alive { out.ops.push(vec![b("ALIVE")]); out.outs.push(vec![i(0)]); }
    out
}

fn enc_opt_score(o: Option<f64>, out: &mut Vec<Tok>) { match o { Some(x) => { out.push(i(1)); out.push(Tok::I(canon_bits(x))); } None => out.push(i(0)) } }
fn enc_opt_usize(o: Option<usize>, out: &mut Vec<Tok>) { match o { Some(x) => { out.push(i(1)); out.push(Tok::I(x as i128)); } None => out.push(i(0)) } }
fn enc_items(l: &[(Vec<u8>, f64)], out: &mut Vec<Tok>) { out.push(Tok::I(l.len() as i128)); for (m, s) in l { out.push(bv(m)); out.push(Tok::I(canon_bits(*s))); } }

fn sl_dump(list: &SkipList<Vec<u8>, f64>, full: bool, out: &mut Vec<Tok>) {
    out.push(Tok::I(list.len() as i128));
    let items = list.get_all_items();
    enc_items(&items, out);
    for (m, _) in &items { enc_opt_score(list.get_score(m), out); enc_opt_usize(list.get_rank(m), out); }
    if full { sl_dump_hook(list, &items, out); }
}
#[cfg(feature = "sl_hook")]
fn sl_dump_hook(list: &SkipList<Vec<u8>, f64>, items: &[(Vec<u8>, f64)], out: &mut Vec<Tok>) {
    let d = list.verif_dump();
    // level 0 as linked must be what the public API reports
    let same0 = d.levels[0].len() == items.len() && d.levels[0].iter().zip(items).all(|(a, b)| a.0 == b.0 && canon_bits(a.1) == canon_bits(b.1));
    if !same0 || d.levels[d.level + 1..].iter().any(|c| !c.is_empty()) { out.push(b("BADLEVELS")); }
    out.push(Tok::I(d.level as i128));
    let mut ix = d.key_index.clone(); ix.sort_by(|a, b| a.0.cmp(&b.0));
    out.push(Tok::I(ix.len() as i128));
    for (k, v) in &ix { out.push(bv(k)); enc_opt_score(Some(*v), out); }
    for h in &d.heights { out.push(Tok::I(*h as i128 - 1)); }
    for lv in 1..=d.level { enc_items(&d.levels[lv], out); }
}
#[cfg(not(feature = "sl_hook"))]
fn sl_dump_hook(_list: &SkipList<Vec<u8>, f64>, _items: &[(Vec<u8>, f64)], out: &mut Vec<Tok>) { out.push(b("NOHOOK")); }

/// height (top level index) of the node just inserted: the first node with this key whose
/// score is the inserted one (equal nodes only exist for NaN; the new one is linked first)
#[cfg(feature = "sl_hook")]
fn inserted_level(list: &SkipList<Vec<u8>, f64>, m: &[u8], x: f64) -> Option<i128> {
    let d = list.verif_dump();
    d.levels[0].iter().zip(d.heights.iter()).find(|((k, v), _)| &k[..] == m && (v.to_bits() == x.to_bits() || (v.is_nan() && x.is_nan())))
        .map(|(_, h)| *h as i128 - 1)
}
#[cfg(not(feature = "sl_hook"))]
fn inserted_level(_list: &SkipList<Vec<u8>, f64>, _m: &[u8], _x: f64) -> Option<i128> { None }

fn run_sl(c: &Case) -> Case {
    let mut out = Case { id: c.id.clone(), ops: vec![], outs: vec![] };
    let mut list: SkipList<Vec<u8>, f64> = SkipList::new();
    for op in &c.ops {
        let name = tok_bytes(&op[0]).to_vec();
        let mut op2 = op.clone();
        let res = std::panic::catch_unwind(std::panic::AssertUnwindSafe(|| {
            let mut o = vec![];
            match &name[..] {
                b"SLNEW" => { list = SkipList::new(); }
                b"SLINS" => {
                    let m = tok_bytes(&op[1]).to_vec(); let x = f64::from_bits(tok_int(&op[2]) as u64);
                    enc_opt_score(list.insert(m.clone(), x), &mut o);
                    op2.truncate(3);
                    if let Some(h) = inserted_level(&list, &m, x) { op2.push(Tok::I(h)); }
                }
                b"SLREM" => { let m = tok_bytes(&op[1]).to_vec(); enc_opt_score(list.remove(&m), &mut o); }
                b"SLSCORE" => { let m = tok_bytes(&op[1]).to_vec(); enc_opt_score(list.get_score(&m), &mut o); }
                b"SLRANK" => { let m = tok_bytes(&op[1]).to_vec(); enc_opt_usize(list.get_rank(&m), &mut o); }
                b"SLGBR" => match list.get_by_rank(tok_int(&op[1]) as usize) {
                    Some((m, s)) => { o.push(i(1)); o.push(bv(&m)); o.push(Tok::I(canon_bits(s))); } None => o.push(i(0)) },
                b"SLRBR" => enc_items(&list.range_by_rank(tok_int(&op[1]) as usize, tok_int(&op[2]) as usize).items, &mut o),
                b"SLRBS" => enc_items(&list.range_by_score(f64::from_bits(tok_int(&op[1]) as u64), f64::from_bits(tok_int(&op[2]) as u64)).items, &mut o),
                b"SLDUMP" => sl_dump(&list, tok_int(&op[1]) != 0, &mut o),
                _ => o.push(b("BADOP")),
            }
            o
        }));
        out.ops.push(op2);
        out.outs.push(match res { Ok(o) => o, Err(_) => vec![b("PANIC")] });
    }
    out
}

pub fn run(c: &Case) -> Case {
    let in_process = c.ops.first().map_or(false, |o| matches!(o.first(), Some(Tok::B(n)) if n.starts_with(b"SL")));
    if in_process { run_sl(c) } else { run_tcp(c) }
}

// ------------------------------------------------------------------ measurement (developer aid)
/// tally of command x outcome class over run cases: `harness tally C04 < ran-cases`
pub fn tally(cases: &[Case]) -> Vec<String> {
    use std::collections::BTreeMap;
    let mut t: BTreeMap<String, usize> = BTreeMap::new();
    for c in cases {
        for (op, o) in c.ops.iter().zip(c.outs.iter()) {
            let name = tok_bytes(&op[0]).to_vec();
            let (cmd, class) = if name == b"CMD" {
                let mut pos = 3;
                let cmd = match V::dec(op, &mut pos) { Some(V::Array(p)) => match p.first() { Some(V::Bulk(n)) => String::from_utf8_lossy(&n.to_ascii_uppercase()).to_string(), _ => "?".into() }, _ => "?".into() };
                let mut p2 = 0;
                let class = match V::dec(o, &mut p2) {
                    Some(V::Error(e)) => format!("err:{}", String::from_utf8_lossy(&e)),
                    Some(V::Int(n)) => (if n == 0 { "int:0" } else if n > 0 { "int:+" } else { "int:-" }).to_string(),
                    Some(V::Array(l)) => (if l.is_empty() { "array:empty" } else if l.len() == 1 { "array:1" } else { "array:n" }).to_string(),
                    Some(V::NullArray) => "nullarray".into(), Some(V::NullBulk) => "nil".into(), Some(V::Double(x)) => (if x.is_nan() { "score:nan" } else if x.is_infinite() { "score:inf" } else { "score" }).to_string(),
                    Some(V::Bulk(_)) => "bulk".into(), Some(V::Simple(_)) => "simple".into(), _ => "other".into(),
                };
                (cmd, class)
            } else {
                (String::from_utf8_lossy(&name).to_string(), match o.first() { Some(Tok::I(0)) => "none/0".to_string(), Some(Tok::I(_)) => "some/n".to_string(), Some(Tok::B(x)) => String::from_utf8_lossy(x).to_string(), None => "-".to_string() })
            };
            *t.entry(format!("{:18} {}", cmd, class)).or_insert(0) += 1;
        }
    }
    t.into_iter().map(|(k, n)| format!("{:6} {}", n, k)).collect()
}

// ------------------------------------------------------------------ property oracle
// Independent of the model: a reference sorted set per key (Redis semantics: members unique,
// ordered by score then member bytes, Redis' rank-range rule, a refused command changes
// nothing) is run beside the implementation's replies.  Deviations that belong to a
// recorded class carry `class=<name>`; the reference then follows the implementation so
// that one deviation is reported once.
#[derive(Clone, PartialEq)]
enum RefVal { Z(Vec<(Vec<u8>, f64)>), Other }
fn zcmp(a: &(Vec<u8>, f64), b: &(Vec<u8>, f64)) -> std::cmp::Ordering {
    a.1.partial_cmp(&b.1).unwrap_or(std::cmp::Ordering::Equal).then_with(|| a.0.cmp(&b.0))
}
fn zput(z: &mut Vec<(Vec<u8>, f64)>, m: &[u8], s: f64) -> bool {
    let was = z.iter().position(|e| e.0 == m);
    if let Some(p) = was { z.remove(p); }
    let e = (m.to_vec(), s);
    let pos = z.iter().position(|x| zcmp(x, &e) != std::cmp::Ordering::Less).unwrap_or(z.len());
    z.insert(pos, e);
    was.is_none()
}
fn redis_slice<T: Clone>(l: &[T], start: i128, stop: i128) -> Vec<T> {
    let n = l.len() as i128;
    let mut s = if start < 0 { start + n } else { start };
    let mut e = if stop < 0 { stop + n } else { stop };
    if s < 0 { s = 0; }
    if s > e || s >= n { return vec![]; }
    if e >= n { e = n - 1; }
    l[s as usize..=e as usize].to_vec()
}
fn members_reply(l: &[(Vec<u8>, f64)], with_scores: bool) -> V {
    let mut o = vec![];
    for (m, s) in l { o.push(V::Bulk(m.clone())); if with_scores { o.push(V::Double(*s)); } }
    V::Array(o)
}
fn same_reply(a: &V, b: &V) -> bool {
    match (a, b) {
        (V::Double(x), V::Double(y)) => x.to_bits() == y.to_bits() || (x.is_nan() && y.is_nan()),
        (V::Array(x), V::Array(y)) => x.len() == y.len() && x.iter().zip(y).all(|(p, q)| same_reply(p, q)),
        _ => a == b,
    }
}
fn bulk(v: &V) -> Option<&[u8]> { match v { V::Bulk(b) => Some(b), _ => None } }
fn int_arg(v: &V) -> Option<i128> { bulk(v).and_then(|b| std::str::from_utf8(b).ok().and_then(|s| s.parse::<i64>().ok())).map(|x| x as i128) }
fn f_arg(v: &V) -> Option<f64> { bulk(v).and_then(parse_f64) }

#[derive(Clone)]
struct World {
    db: std::collections::HashMap<Vec<u8>, RefVal>,
    tainted: std::collections::HashSet<Vec<u8>>,   // keys that ever held NaN
    partial_at: Option<usize>,                     // this world assumes a refused ZADD applied its first pairs
}

/// one reply checked against one world; returns the failures and, when a refused
/// multi-member ZADD had valid leading pairs, the alternative world in which they were applied
fn judge_step(w: &mut World, id: &str, k: usize, parts: &[V], reply: &V) -> (Vec<String>, Option<World>) {
    let mut fails = vec![];
    let mut fork = None;
    let name = match parts.first() { Some(V::Bulk(b)) => b.to_ascii_uppercase(), _ => return (fails, fork) };
    let is_err = matches!(reply, V::Error(_));
    let key = parts.get(1).and_then(bulk).map(|b| b.to_vec());
    let mut fail = |what: String, class: &str| {
        fails.push(format!("FAIL case={} op={} {} {}{}", id, k, String::from_utf8_lossy(&name), what, if class.is_empty() { String::new() } else { format!(" class={}", class) }));
    };
    let with_scores = parts.len() == 5 && matches!(&parts[4], V::Bulk(o) if o.to_ascii_uppercase() == b"WITHSCORES");
    // every score the implementation shows must be a number
    fn has_nan(v: &V) -> bool { match v { V::Double(x) => x.is_nan(), V::Array(l) => l.iter().any(has_nan), _ => false } }
    if has_nan(reply) { fail("a NaN score is shown".into(), "zset-nan"); if let Some(k) = &key { w.tainted.insert(k.clone()); } }
    let key = match key { Some(k) => k, None => return (fails, fork) };
    if w.tainted.contains(&key) && name.starts_with(b"Z") {
        // a key that held NaN is not followed any further (recorded class)
        return (fails, fork);
    }
    let cur = w.db.get(&key).cloned();
    let zcur: Option<Vec<(Vec<u8>, f64)>> = match &cur { Some(RefVal::Z(z)) => Some(z.clone()), None => Some(vec![]), Some(RefVal::Other) => None };
    macro_rules! zset_or_refused { () => { match zcur { Some(z) => z, None => { if !is_err { fail("wrong type not refused".into(), ""); } return (fails, fork) } } } }
    match &name[..] {
        b"SET" => { if !is_err { w.db.insert(key, RefVal::Other); } }
        b"TYPE" | b"EXISTS" if parts.len() == 2 && !w.tainted.contains(&key) => {
            // a sorted set exists exactly as long as it has a member
            let exp = match (&name[..], &cur) {
                (b"TYPE", Some(RefVal::Z(_))) => V::Simple(b"zset".to_vec()), (b"TYPE", None) => V::Simple(b"none".to_vec()),
                (b"EXISTS", Some(_)) => V::Int(1), (b"EXISTS", None) => V::Int(0),
                _ => reply.clone(),
            };
            if !same_reply(reply, &exp) { fail(format!("answered {:?}, expected {:?}", reply, exp), ""); }
        }
        b"DEL" => { w.db.remove(&key); }
        b"RENAME" => { if !is_err { if let (Some(v), Some(V::Bulk(dst))) = (w.db.remove(&key), parts.get(2)) { if w.tainted.remove(&key) { w.tainted.insert(dst.clone()); } w.db.insert(dst.clone(), v); } } }
        b"ZADD" => {
            if parts.len() < 4 || parts.len() % 2 != 0 { if !is_err { fail("arity not refused".into(), ""); } return (fails, fork); }
            let z = zset_or_refused!();
            // the whole command is valid iff every pair is
            let mut pairs = vec![]; let mut bad_at = None;
            for i in (2..parts.len()).step_by(2) {
                match (f_arg(&parts[i]), bulk(&parts[i + 1])) {
                    (Some(s), Some(m)) if !s.is_nan() => pairs.push((m.to_vec(), s)),
                    (Some(s), Some(m)) => { pairs.push((m.to_vec(), s)); if bad_at.is_none() { bad_at = Some((i, true)); } }
                    _ => { if bad_at.is_none() { bad_at = Some((i, false)); } break; }
                }
            }
            let mut z2 = z.clone();
            match bad_at {
                None => {
                    let mut added = 0; for (m, s) in &pairs { if zput(&mut z2, m, *s) { added += 1; } }
                    if !same_reply(reply, &V::Int(added)) { fail(format!("answered {:?}, expected {}", reply, added), ""); }
                    w.db.insert(key, RefVal::Z(z2));
                }
                Some((i, nan)) => {
                    if !is_err {
                        if nan { fail("a NaN score was accepted".into(), "zset-nan"); w.tainted.insert(key.clone()); for (m, s) in &pairs { zput(&mut z2, m, *s); } w.db.insert(key, RefVal::Z(z2)); }
                        else { fail("an invalid pair was accepted".into(), ""); }
                    } else if i > 2 {
                        // refused: nothing may have been added; whether the first pairs were applied shows later
                        for (m, s) in pairs.iter().take((i - 2) / 2) { zput(&mut z2, m, *s); }
                        // compared by bit pattern: re-scoring +0 to -0 is a change too
                        let changed = z2.len() != z.len() || z2.iter().zip(z.iter()).any(|(a, b)| a.0 != b.0 || a.1.to_bits() != b.1.to_bits());
                        if changed { let mut alt = w.clone(); alt.db.insert(key, RefVal::Z(z2)); if alt.partial_at.is_none() { alt.partial_at = Some(k); } fork = Some(alt); }
                    }
                }
            }
        }
        b"ZREM" => {
            if parts.len() < 3 { return (fails, fork); }
            let mut z = zset_or_refused!();
            let mut n = 0;
            for p in &parts[2..] { if let Some(m) = bulk(p) { if let Some(ix) = z.iter().position(|e| e.0 == m) { z.remove(ix); n += 1; } } }
            if !same_reply(reply, &V::Int(n)) { fail(format!("answered {:?}, expected {}", reply, n), ""); }
            if z.is_empty() { w.db.remove(&key); } else { w.db.insert(key, RefVal::Z(z)); }
        }
        b"ZINCRBY" => {
            if parts.len() != 4 { return (fails, fork); }
            let (inc, m) = match (f_arg(&parts[2]), bulk(&parts[3])) { (Some(i), Some(m)) => (i, m.to_vec()), _ => { if !is_err { fail("invalid argument accepted".into(), ""); } return (fails, fork) } };
            let mut z = zset_or_refused!();
            let old = z.iter().find(|e| e.0 == m).map(|e| e.1);
            let ns = old.map_or(inc, |o| o + inc);
            if ns.is_nan() {
                if !is_err { fail("an increment producing NaN was accepted".into(), "zset-nan"); w.tainted.insert(key.clone()); }
                return (fails, fork);
            }
            if !same_reply(reply, &V::Double(ns)) { fail(format!("answered {:?}, expected {}", reply, ns), ""); }
            zput(&mut z, &m, ns); w.db.insert(key, RefVal::Z(z));
        }
        b"ZPOPMIN" | b"ZPOPMAX" => {
            if parts.len() > 3 { return (fails, fork); }
            let count = if parts.len() == 3 { match bulk(&parts[2]).and_then(|b| std::str::from_utf8(b).ok().and_then(|s| s.parse::<u64>().ok())) { Some(n) => n, None => { if !is_err { fail("bad count accepted".into(), ""); } return (fails, fork) } } } else { 1 };
            if zcur.is_none() && count == 0 {
                // the type of the key is only met inside the pop loop: with count 0 a key of another type is not refused
                if !is_err { fail("wrong type not refused (count 0)".into(), "zpop-count0-wrongtype"); }
                return (fails, fork);
            }
            let mut z = zset_or_refused!();
            let mut popped = vec![];
            for _ in 0..count.min(z.len() as u64) { popped.push(if &name[..] == b"ZPOPMIN" { z.remove(0) } else { z.pop().unwrap() }); }
            let exp = members_reply(&popped, true);
            // an empty result is answered as a nil array (reply-shape deviation, not part of the property)
            let ok = if popped.is_empty() { matches!(reply, V::NullArray) || matches!(reply, V::Array(l) if l.is_empty()) } else { same_reply(reply, &exp) };
            if !ok { fail(format!("answered {:?}", reply), ""); }
            if z.is_empty() { w.db.remove(&key); } else { w.db.insert(key, RefVal::Z(z)); }
        }
        b"ZSCORE" | b"ZCARD" | b"ZRANK" | b"ZREVRANK" | b"ZRANGE" | b"ZREVRANGE" | b"ZRANGEBYSCORE" | b"ZREVRANGEBYSCORE" | b"ZCOUNT" => {
            if is_err { return (fails, fork); }   // refusals of reads are compared by the model only
            let z = match zcur { Some(z) => z, None => { fail("wrong type not refused".into(), ""); return (fails, fork) } };
            let n = z.len() as i128;
            let exp: Option<(V, &str)> = match &name[..] {
                b"ZSCORE" => parts.get(2).and_then(bulk).map(|m| (z.iter().find(|e| e.0 == m).map_or(V::NullBulk, |e| V::Double(e.1)), "")),
                b"ZCARD" => Some((V::Int(n as i64), "")),
                b"ZRANK" | b"ZREVRANK" => parts.get(2).and_then(bulk).map(|m| (match z.iter().position(|e| e.0 == m) {
                    Some(p) => V::Int(if &name[..] == b"ZRANK" { p as i64 } else { (n - 1) as i64 - p as i64 }), None => V::NullBulk }, "")),
                b"ZRANGE" | b"ZREVRANGE" => match (parts.get(2).and_then(int_arg), parts.get(3).and_then(int_arg)) {
                    (Some(a), Some(b)) => {
                        let rev = &name[..] == b"ZREVRANGE";
                        let mut l = z.clone(); if rev { l.reverse(); }
                        let si = if a < 0 { (n + a).max(0) } else { a };
                        let class = if b < -n { "zrange-neg-stop" } else if rev && si >= n { "zrevrange-beyond" } else { "" };
                        Some((members_reply(&redis_slice(&l, a, b), with_scores), class))
                    }
                    _ => None },
                b"ZRANGEBYSCORE" | b"ZREVRANGEBYSCORE" | b"ZCOUNT" => match (parts.get(2).and_then(f_arg), parts.get(3).and_then(f_arg)) {
                    (Some(a), Some(b)) => {
                        let rev = &name[..] == b"ZREVRANGEBYSCORE";
                        let (mn, mx) = if rev { (b, a) } else { (a, b) };
                        if mn.is_nan() || mx.is_nan() { fail("a NaN bound was accepted".into(), "zbyscore-nan-bound"); None }
                        else {
                            let mut l: Vec<(Vec<u8>, f64)> = z.iter().filter(|e| mn <= e.1 && e.1 <= mx).cloned().collect();
                            if rev { l.reverse(); }
                            if &name[..] == b"ZCOUNT" { Some((V::Int(l.len() as i64), "")) } else { Some((members_reply(&l, with_scores), "")) }
                        }
                    }
                    _ => None },
                _ => None,
            };
            if let Some((e, class)) = exp { if !same_reply(reply, &e) { fail(format!("answered {:?}, the sorted set is {:?}", reply, z), class); } }
        }
        _ => {}
    }
    (fails, fork)
}

pub fn judge(c: &Case, outs: &[Vec<Tok>]) -> Vec<String> {
    let mut fails = vec![];
    if c.ops.first().map_or(false, |o| matches!(o.first(), Some(Tok::B(n)) if n.starts_with(b"SL"))) { return judge_sl(c, outs); }
    // the candidate worlds: they differ in whether refused multi-member ZADDs applied their first pairs
    let mut worlds = vec![World { db: Default::default(), tainted: Default::default(), partial_at: None }];
    for (k, (op, out)) in c.ops.iter().zip(outs.iter()).enumerate() {
        if tok_bytes(&op[0]) == b"ALIVE" { fails.push(format!("FAIL case={} op={} server died", c.id, k)); continue; }
        if tok_bytes(&op[0]) != b"CMD" { continue; }
        let mut pos = 3;
        let parts = match V::dec(op, &mut pos) { Some(V::Array(p)) => p, _ => continue };
        let mut p2 = 0;
        let reply = match V::dec(out, &mut p2) { Some(r) => r, None => { fails.push(format!("FAIL case={} op={} no reply ({})", c.id, k, toks_to_line(out))); continue } };
        let mut next: Vec<(World, Vec<String>)> = vec![];
        for w in worlds.iter() {
            let mut w2 = w.clone();
            let (f, fork) = judge_step(&mut w2, &c.id, k, &parts, &reply);
            next.push((w2, f));
            if let Some(alt) = fork { next.push((alt, vec![])); }
        }
        // a world that explains the reply without an unclassified failure survives
        let unclassified = |f: &Vec<String>| f.iter().any(|l| !l.contains(" class="));
        let had_clean = worlds.iter().any(|w| w.partial_at.is_none());
        if next.iter().any(|(_, f)| !unclassified(f)) { next.retain(|(_, f)| !unclassified(f)); }
        let (first_fails, _) = (next[0].1.clone(), ());
        fails.extend(first_fails);
        worlds = next.into_iter().map(|(w, _)| w).collect();
        if worlds.len() > 16 { worlds.truncate(16); }
        if had_clean && worlds.iter().all(|w| w.partial_at.is_some()) {
            let at = worlds[0].partial_at.unwrap();
            fails.push(format!("FAIL case={} op={} ZADD refused multi-member ZADD applied its first pairs (seen at op {}) class=zadd-partial", c.id, at, k));
        }
    }
    fails
}

/// skip-list histories: whatever the operations, every dump must show a chain ordered by
/// (score, member) whose length equals `length`; without NaN: members unique, each with its
/// indexed score and its rank equal to its position
fn judge_sl(c: &Case, outs: &[Vec<Tok>]) -> Vec<String> {
    let mut fails = vec![];
    for (k, (op, out)) in c.ops.iter().zip(outs.iter()).enumerate() {
        if out.first() == Some(&b("PANIC")) { fails.push(format!("FAIL case={} op={} panic", c.id, k)); continue; }
        if tok_bytes(&op[0]) != b"SLDUMP" || out.len() < 2 { continue; }
        let (len, n) = (tok_int(&out[0]), tok_int(&out[1]) as usize);
        let items: Vec<(Vec<u8>, u64)> = (0..n).map(|j| (tok_bytes(&out[2 + 2 * j]).to_vec(), tok_int(&out[3 + 2 * j]) as u64)).collect();
        let nan = items.iter().any(|e| f64::from_bits(e.1).is_nan());
        let class = if nan { " class=zset-nan" } else { "" };
        if len != n as i128 { fails.push(format!("FAIL case={} op={} length {} but {} nodes{}", c.id, k, len, n, class)); }
        for w in items.windows(2) {
            let (a, b2) = (f64::from_bits(w[0].1), f64::from_bits(w[1].1));
            let ord = match a.partial_cmp(&b2) { Some(o) => o.then_with(|| w[0].0.cmp(&w[1].0)), None => if a.is_nan() && b2.is_nan() { w[0].0.cmp(&w[1].0) } else if a.is_nan() { std::cmp::Ordering::Greater } else { std::cmp::Ordering::Less } };
            if ord == std::cmp::Ordering::Greater || (ord == std::cmp::Ordering::Equal && !nan) { fails.push(format!("FAIL case={} op={} chain not strictly ordered{}", c.id, k, class)); }
        }
        // per node: get_score, get_rank
        let mut p = 2 + 2 * n;
        for (j, it) in items.iter().enumerate() {
            if p >= out.len() { break; }
            let sc = if tok_int(&out[p]) == 1 { p += 2; Some(tok_int(&out[p - 1]) as u64) } else { p += 1; None };
            let rk = if tok_int(&out[p]) == 1 { p += 2; Some(tok_int(&out[p - 1])) } else { p += 1; None };
            if !nan && (sc != Some(it.1) || rk != Some(j as i128)) { fails.push(format!("FAIL case={} op={} node {} score/rank lookup disagrees with the chain", c.id, k, j)); }
        }
    }
    fails
}
