//! C05: one reply per request, in order, under every segmentation; errors are replies;
//! request bytes cannot change the framing of replies.
use crate::resp::V;
use crate::rng::Rng;
use crate::srv::*;
use crate::tok::*;
use crate::c01;

fn wire(args: &[Vec<u8>]) -> Vec<u8> { let mut w = vec![]; V::Array(args.iter().map(|a| V::Bulk(a.clone())).collect()).wire(&mut w); w }

fn gen_request(r: &mut Rng) -> Vec<u8> {
    let v = |x: &[u8]| x.to_vec();
    match r.below(24) {
        0..=9 => { let mut c = c01::gen_cmd(r); if c[0] == b"RANDOMKEY" || c[0] == b"KEYS" || c[0] == b"TTL" || c[0] == b"PTTL" { c = vec![v(b"PING")]; } /* order-/time-dependent replies cannot be canonicalised inside a raw stream */ wire(&c) }
        10 => wire(&[v(b"ECHO"), v(b"a\r\nb")]),
        11 => wire(&[v(b"NOSUCH\r\n+INJECTED"), v(b"x")]),
        12 => wire(&[v(b"get\r\n"), v(b"k1")]),
        13 => wire(&[v(b"SET"), v(b"k\r\n1"), v(b"v\r\n+OK\r\n")]),
        14 => b"*0\r\n".to_vec(),
        15 => b"*-1\r\n".to_vec(),
        16 => b"+PING\r\n".to_vec(),
        17 => b":5\r\n".to_vec(),
        18 => b"$4\r\nPING\r\n".to_vec(),
        19 => b"*1\r\n:1\r\n".to_vec(),
        20 => b"*2\r\n$4\r\nECHO\r\n*1\r\n$1\r\nx\r\n".to_vec(),
        21 => b"PING\r\n".to_vec(),
        22 => b"\r\n\r\n".to_vec(),
        _ => wire(&[v(b"ECHO"), (0..r.below(600)).map(|_| *r.pick(b"ab\r\n$*+-:0")).collect()]),
    }
}
fn gen_violation(r: &mut Rng) -> Vec<u8> {
    match r.below(8) {
        0 => b"*1\r\n$x\r\n".to_vec(),
        1 => b"*2\r\n$3\r\nGET\r\n$-5\r\n".to_vec(),
        2 => b"!hello\r\n".to_vec(),
        3 => b"*1\r\n$4\r\nPINGxx".to_vec(),
        4 => b"*abc\r\n".to_vec(),
        5 => b"$3\r\nabcde".to_vec(),
        6 => b"GET k1\r\n".to_vec(),
        _ => b"*-7\r\n".to_vec(),
    }
}

fn cuts(r: &mut Rng, data: &[u8]) -> Vec<Vec<u8>> {
    if data.is_empty() { return vec![vec![]]; }
    match r.below(6) {
        0 => vec![data.to_vec()],
        1 if data.len() <= 48 => data.iter().map(|c| vec![*c]).collect(),
        2 => { // cut inside a CR LF when there is one
            if let Some(p) = data.windows(2).position(|w| w == b"\r\n") { vec![data[..p + 1].to_vec(), data[p + 1..].to_vec()] } else { vec![data.to_vec()] } }
        _ => { let n = 2 + r.below(5) as usize; let mut pts: Vec<usize> = (0..n - 1).map(|_| r.below(data.len() as u64) as usize).collect(); pts.sort(); pts.dedup();
               let mut out = vec![]; let mut p = 0; for q in pts { if q > p { out.push(data[p..q].to_vec()); p = q; } } out.push(data[p..].to_vec()); out }
    }
}

pub fn gen(seed: u64, n: usize, _tier: &str) -> Vec<Case> {
    let mut r = Rng::new(seed);
    let mut cases = vec![];
    // the reply path under partial writes and a full socket: 8 MiB of replies owed to a late reader (more than a socket takes in one write)
    for (id, (size, count)) in [(65536i128, 128i128), (4099, 2000)].iter().enumerate() {
        let seed = r.below(256) as i128;
        let ops = vec![conn_op(1), conn_op(2), vec![b("BIG"), i(1), i(0), b("big"), i(seed), i(*size), i(*count)],
            cmd_op(1, &[b"STRLEN", b"big"]), cmd_op(2, &[b"PING"])];
        cases.push(Case { id: format!("big-{}", id), ops, outs: vec![] });
    }
    // pipelines whose total size is exactly a multiple of the server's read buffer (8192), and its
    // neighbours: whatever a read returns - a full buffer or less - every complete frame is answered
    // without waiting for more input
    for (id, target) in [8191usize, 8192, 8193, 16383, 16384, 16385, 24576, 4096].iter().enumerate() {
        for split in 0..2 {
            let mut ops = vec![conn_op(1), conn_op(2), cmd_op(2, &[b"SET", b"k1", b"10"])];
            let mut data = vec![];
            for _ in 0..(1 + r.below(6)) { data.extend(gen_request(&mut r)); }
            // one ECHO whose argument pads the stream to the target size
            let mut fill = target.saturating_sub(data.len() + 30);
            loop {
                let f = wire(&[b"ECHO".to_vec(), vec![b'p'; fill]]);
                if data.len() + f.len() == *target { data.extend(f); break; }
                if data.len() + f.len() > *target { if fill == 0 { break; } fill -= 1; } else { fill += 1; }
            }
            let ch = if split == 0 { vec![data.clone()] } else { let cut = 1 + r.below(data.len() as u64 - 1) as usize; vec![data[..cut].to_vec(), data[cut..].to_vec()] };
            ops.push(raw_op(1, &ch));
            ops.push(cmd_op(1, &[b"PING"]));
            ops.push(cmd_op(2, &[b"PING"]));
            cases.push(Case { id: format!("fill-{}-{}", id, split), ops, outs: vec![] });
        }
    }
    for id in 0..n {
        let mut ops = vec![conn_op(1), conn_op(2)];
        // seed a wrong-type key so type errors occur
        ops.push(cmd_op(2, &[b"SET", b"k1", b"10"]));
        let rounds = 1 + r.below(3);
        let mut closed = false;
        for _ in 0..rounds {
            let nreq = if r.chance(1, 10) { 150 + r.below(100) } else { 1 + r.below(12) };
            let mut data = vec![];
            for _ in 0..nreq { data.extend(gen_request(&mut r)); }
            if r.chance(1, 8) { data.extend(wire(&[b"QUIT".to_vec()])); data.extend(wire(&[b"PING".to_vec()])); closed = true; }
            else if r.chance(1, 6) { data.extend(gen_violation(&mut r)); if data.len() < 3000 { data.extend(wire(&[b"PING".to_vec()])); } closed = true; }
            let ch = cuts(&mut r, &data);
            ops.push(raw_op(1, &ch));
            if closed { break; }
        }
        // the connection is still usable (or closed exactly when the model says so); another connection is unaffected
        if !closed { ops.push(cmd_op(1, &[b"PING"])); }
        ops.push(cmd_op(2, &[b"PING"]));
        ops.push(cmd_op(2, &[b"GET", b"k1"]));
        cases.push(Case { id: format!("raw-{}", id), ops, outs: vec![] });
    }
    cases
}
pub fn run(c: &Case) -> Case { run_case(c, &SrvOpts::default()) }
