//! C06: no client input can crash, hang or wedge the server.  Boundary enumeration over every
//! dispatched command x numeric argument positions x keys of every type, plus hostile byte streams;
//! after each probe: the process is alive, a fresh connection is served, the sentinel data is intact.
use crate::resp::*;
use crate::rng::Rng;
use crate::srv::*;
use crate::tok::*;
use std::time::Duration;

const NUMS: &[&[u8]] = &[b"0", b"1", b"-1", b"2", b"9223372036854775807", b"-9223372036854775808", b"18446744073709551615",
    b"9223372036854775808", b"-9223372036854775809", b"2147483648", b"-2147483649", b"4294967296", b"1e300", b"nan", b"inf", b"-inf",
    b"-0", b"", b"abc", b"0.5", b"536870912", b"-9223372036854775807", b"18446744073709551616", b"1e-300", b"+5", b" 7", b"0x10"];
const KEYS: &[&[u8]] = &[b"s", b"n", b"l", b"st", b"h", b"z", b"x", b"biglist", b"missing", b"empty"];
const WORDS: &[&[u8]] = &[b"f", b"a", b"b", b"g1", b"c1", b"*", b">", b"$", b"-", b"+", b"0-0", b"5-5", b"COUNT", b"MATCH", b"WITHSCORES", b"NX", b"XX",
    b"EX", b"PX", b"LIMIT", b"BLOCK", b"STREAMS", b"MKSTREAM", b"CREATE", b"NOACK", b"IDLE", b"TIME", b"GET", b"SET", b"RESETSTAT", b"FLUSH", b"LOAD", b"EXISTS"];
// commands whose purpose is to stop or reconfigure the server or that legitimately wipe the sentinel
const EXCLUDED: &[&str] = &["SHUTDOWN", "FLUSHALL", "FLUSHDB", "REPLICAOF", "SLAVEOF", "QUIT", "DEL", "RENAME", "RENAMENX", "SAVE", "BGSAVE", "BGREWRITEAOF", "SYNC", "PSYNC", "MONITOR", "CLIENT"];

fn seed_ops() -> Vec<Vec<Vec<u8>>> {
    let c = |a: &[&[u8]]| -> Vec<Vec<u8>> { a.iter().map(|x| x.to_vec()).collect() };
    let mut v = vec![c(&[b"SET", b"sentinel", b"intact"]), c(&[b"SET", b"s", b"hello"]), c(&[b"SET", b"n", b"10"]), c(&[b"SET", b"empty", b""]),
        c(&[b"RPUSH", b"l", b"a", b"b", b"c"]), c(&[b"SADD", b"st", b"a", b"b", b"c"]), c(&[b"HSET", b"h", b"f", b"1", b"g", b"9223372036854775807"]),
        c(&[b"ZADD", b"z", b"1", b"a", b"2", b"b", b"inf", b"c"]), c(&[b"XADD", b"x", b"5-5", b"f", b"v"]), c(&[b"XADD", b"x", b"18446744073709551615-18446744073709551614", b"f", b"v"]),
        c(&[b"XGROUP", b"CREATE", b"x", b"g1", b"0"])];
    let mut big = c(&[b"RPUSH", b"biglist"]); for k in 0..1000 { big.push(format!("e{}", k).into_bytes()); } v.push(big);
    v
}

fn gen_probe(r: &mut Rng, names: &[String]) -> V {
    let name = r.pick(names).clone();
    let n = r.below(6) as usize;
    let mut args = vec![V::Bulk(name.into_bytes())];
    for _ in 0..n {
        args.push(match r.below(20) {
            0..=6 => V::Bulk(r.pick(KEYS).to_vec()),
            7..=14 => V::Bulk(r.pick(NUMS).to_vec()),
            15..=17 => V::Bulk(r.pick(WORDS).to_vec()),
            18 => V::Int(r.range(-3, 3)),
            _ => V::Array(vec![V::Bulk(b"nested".to_vec())]),
        });
    }
    V::Array(args)
}

const HOSTILE_KINDS: u64 = 16;
fn hostile_bytes(r: &mut Rng) -> Vec<u8> { let k = r.below(HOSTILE_KINDS); hostile_kind(r, k) }
fn hostile_kind(r: &mut Rng, kind: u64) -> Vec<u8> {
    match kind {
        0 => b"*9223372036854775807\r\n".to_vec(),
        1 => b"%18446744073709551615\r\n".to_vec(),
        2 => b"~99999999999\r\n".to_vec(),
        3 => { let mut v = vec![]; for _ in 0..100000 { v.extend_from_slice(b"*1\r\n"); } v }
        4 => b"$9223372036854775807\r\nabc".to_vec(),
        5 => b"*1\r\n$-9\r\n".to_vec(),
        6 => { let mut v = b"*3\r\n$3\r\nSET\r\n$1\r\nk\r\n$100000000\r\n".to_vec(); v.extend(vec![b'x'; 1000]); v }
        7 => (0..(1 + r.below(200))).map(|_| r.below(256) as u8).collect(),
        8 => b"*1000000000\r\n".to_vec(),
        9 => { let mut v = vec![]; for _ in 0..40 { v.extend_from_slice(b"%1\r\n"); } v }
        10 => b"\x00\x00\x00\x00".to_vec(),
        // every recursive position of every aggregate, far beyond any stack: array element, set member,
        // map key, map value (after a scalar key), and random mixtures of the four
        11 => { let mut v = vec![]; for _ in 0..60000 { v.extend_from_slice(b"%1\r\n+k\r\n"); } v }
        12 => { let mut v = vec![]; for _ in 0..100000 { v.extend_from_slice(b"~1\r\n"); } v }
        13 => { let mut v = vec![]; for _ in 0..100000 { v.extend_from_slice(b"%1\r\n"); } v }
        14 => { let mut v = vec![]; for _ in 0..60000 { v.extend_from_slice(match r.below(5) { 0 => &b"*1\r\n"[..], 1 => &b"~1\r\n"[..], 2 => &b"%1\r\n"[..], 3 => &b"%1\r\n:1\r\n"[..], _ => &b"*2\r\n$1\r\nx\r\n"[..] }); } v }
        _ => { let alpha = b"+-:$*_#,%~0123456789\r\nPING"; (0..(1 + r.below(60))).map(|_| *r.pick(alpha)).collect() }
    }
}

pub fn gen(seed: u64, n: usize, _tier: &str) -> Vec<Case> {
    let mut r = Rng::new(seed);
    let names: Vec<String> = dispatch_names().into_iter().filter(|x| !EXCLUDED.contains(&x.as_str())).collect();
    let mut cases = vec![];
    let per = 40;
    // every hostile family once, whatever the seed
    cases.push(Case { id: "hostile-all".to_string(), ops: (0..HOSTILE_KINDS).map(|k| vec![b("PROBERAW"), bv(&hostile_kind(&mut r, k))]).collect(), outs: vec![] });
    for id in 0..(n / per).max(1) {
        let mut ops = vec![];
        for _ in 0..per {
            if r.chance(1, 6) { ops.push(vec![b("PROBERAW"), bv(&hostile_bytes(&mut r))]); }
            else { let mut o = vec![b("PROBE")]; gen_probe(&mut r, &names).enc(&mut o); ops.push(o); }
        }
        cases.push(Case { id: format!("probe-{}", id), ops, outs: vec![] });
    }
    cases
}

fn healthy(srv: &mut Srv) -> bool {
    if !srv.alive() { return false; }
    for _ in 0..2 {
        if let Some(mut c) = Client::connect(srv.port) {
            let mut w = vec![]; V::cmd(&[b"PING"]).wire(&mut w); V::cmd(&[b"GET", b"sentinel"]).wire(&mut w); c.send(&w);
            let a = c.read(4000); let b2 = c.read(4000);
            if matches!(a, Rd::Val(V::Simple(ref s)) if s == b"PONG") && matches!(b2, Rd::Val(V::Bulk(ref s)) if s == b"intact") { return true; }
        }
        std::thread::sleep(Duration::from_millis(50));
    }
    false
}

pub fn run(c: &Case) -> Case {
    let mut out = Case { id: c.id.clone(), ops: vec![], outs: vec![] };
    let mut srv: Option<Srv> = None;
    for op in &c.ops {
        if srv.is_none() {
            let s = Srv::start(&SrvOpts::default());
            if let Some(mut cl) = Client::connect(s.port) {
                for cmd in seed_ops() { let refs: Vec<&[u8]> = cmd.iter().map(|x| &x[..]).collect(); let mut w = vec![]; V::cmd(&refs).wire(&mut w); cl.send(&w); let _ = cl.read(3000); }
            }
            srv = Some(s);
        }
        let s = srv.as_mut().unwrap();
        let mut wire = vec![];
        if tok_bytes(&op[0]) == b"PROBE" { let mut pos = 1; if let Some(v) = V::dec(op, &mut pos) { v.wire(&mut wire); } } else { wire = tok_bytes(&op[1]).to_vec(); }
        if let Some(mut cl) = Client::connect(s.port) {
            cl.send(&wire);
            let _ = cl.read(250);          // a reply, an error, or nothing (blocking command / incomplete frame): all fine
        }
        let ok = healthy(s);
        out.ops.push(op.clone()); out.outs.push(vec![i(ok as i64)]);
        if !ok { if let Some(s) = srv.take() { s.stop(false); } }   // restart for the next probe
    }
    if let Some(s) = srv.take() { s.stop(false); }
    out
}

pub fn judge(c: &Case, outs: &[Vec<Tok>]) -> Vec<String> {
    let mut f = vec![];
    for (k, o) in outs.iter().enumerate() {
        if o != &vec![i(1)] { f.push(format!("FAIL case={} op={} server dead, hung or sentinel lost after this input", c.id, k)); }
    }
    f
}
