//! C06: no client input can crash, hang or wedge the server.  Boundary enumeration over every
//! dispatched command x numeric argument positions x keys of every type, plus hostile byte streams;
//! after each probe: the process is alive, a fresh connection is served, the sentinel data is intact.
use crate::resp::*;
use crate::rng::Rng;
use crate::srv::*;
use crate::tok::*;
use std::time::Duration;

const NUMS: &[&[u8]] = &[b"0", b"1", b"-1", b"2", b"9223372036854775807", b"-9223372036854775808", b"18446744073709551615",
    b"9223372036854775808", b"-9223372036854775809", b"2147483648", b"-2147483649", b"4294967296", b"1e300", b"nan", b"inf", b"-inf",
    b"-0", b"", b"abc", b"0.5", b"536870912", b"-9223372036854775807", b"18446744073709551616", b"1e-300", b"+5", b" 7", b"0x10"];
const KEYS: &[&[u8]] = &[b"s", b"n", b"l", b"st", b"h", b"z", b"x", b"biglist", b"missing", b"empty"];
const WORDS: &[&[u8]] = &[b"f", b"a", b"b", b"g1", b"c1", b"*", b">", b"$", b"-", b"+", b"0-0", b"5-5", b"COUNT", b"MATCH", b"WITHSCORES", b"NX", b"XX",
    b"EX", b"PX", b"LIMIT", b"BLOCK", b"STREAMS", b"MKSTREAM", b"CREATE", b"NOACK", b"IDLE", b"TIME", b"GET", b"SET", b"RESETSTAT", b"FLUSH", b"LOAD", b"EXISTS"];
// commands whose purpose is to stop or reconfigure the server or that legitimately wipe the sentinel
const EXCLUDED: &[&str] = &["SHUTDOWN", "FLUSHALL", "FLUSHDB", "REPLICAOF", "SLAVEOF", "QUIT", "DEL", "RENAME", "RENAMENX", "SAVE", "BGSAVE", "BGREWRITEAOF", "SYNC", "PSYNC", "MONITOR", "CLIENT"];

fn seed_ops() -> Vec<Vec<Vec<u8>>> {
    let c = |a: &[&[u8]]| -> Vec<Vec<u8>> { a.iter().map(|x| x.to_vec()).collect() };
    let mut v = vec![c(&[b"SET", b"sentinel", b"intact"]), c(&[b"SET", b"s", b"hello"]), c(&[b"SET", b"n", b"10"]), c(&[b"SET", b"empty", b""]),
        c(&[b"RPUSH", b"l", b"a", b"b", b"c"]), c(&[b"SADD", b"st", b"a", b"b", b"c"]), c(&[b"HSET", b"h", b"f", b"1", b"g", b"9223372036854775807"]),
        c(&[b"ZADD", b"z", b"1", b"a", b"2", b"b", b"inf", b"c"]), c(&[b"XADD", b"x", b"5-5", b"f", b"v"]), c(&[b"XADD", b"x", b"18446744073709551615-18446744073709551614", b"f", b"v"]),
        c(&[b"XGROUP", b"CREATE", b"x", b"g1", b"0"])];
    let mut big = c(&[b"RPUSH", b"biglist"]); for k in 0..1000 { big.push(format!("e{}", k).into_bytes()); } v.push(big);
    v
}

/// every command name the script-side executor dispatches (src/storage/commands/executor.rs), read from
/// /repo's current source: SETBIT / GETBIT / BITCOUNT ... exist there only
fn executor_names() -> Vec<String> {
    let repo = std::env::var("VERIF_REPO").unwrap_or("/repo".to_string());
    let src = std::fs::read_to_string(format!("{}/src/storage/commands/executor.rs", repo)).unwrap_or_default();
    let mut names: Vec<String> = vec![];
    let mut p = 0;
    while let Some(q) = src[p..].find('"') {
        let st = p + q + 1;
        if let Some(e) = src[st..].find('"') {
            let w = &src[st..st + e];
            let after = src[st + e + 1..].trim_start();
            if w.len() >= 3 && w.chars().all(|c| c.is_ascii_uppercase()) && (after.starts_with("=>") || after.starts_with('|'))
                && !names.contains(&w.to_string()) { names.push(w.to_string()); }
            p = st + e + 1;
        } else { break; }
    }
    names
}

/// the same kind of probe sent through a script: EVAL "return redis.pcall(unpack(ARGV))" 0 name args.. -
/// the command runs in the executor, a second implementation of every command
fn gen_script_probe(r: &mut Rng, names: &[String]) -> V {
    let name = r.pick(names).clone();
    let n = r.below(5) as usize;
    let mut args = vec![V::Bulk(b"EVAL".to_vec()), V::Bulk(if r.chance(1, 2) { b"return redis.pcall(unpack(ARGV))".to_vec() } else { b"return redis.call(unpack(ARGV))".to_vec() }),
                        V::Bulk(b"0".to_vec()), V::Bulk(name.into_bytes())];
    for _ in 0..n {
        args.push(match r.below(20) {
            0..=7 => V::Bulk(r.pick(KEYS).to_vec()),
            8..=16 => V::Bulk(r.pick(NUMS).to_vec()),
            _ => V::Bulk(r.pick(WORDS).to_vec()),
        });
    }
    V::Array(args)
}

/// scripts whose return value or own behaviour is hostile to the conversion code (never: a script that
/// does not end - open class script-never-ends)
const HOSTILE_SCRIPTS: &[&str] = &[
    "local t={} t[1]=t return t",
    "local t={} for i=1,100000 do t={t} end return t",
    "local t={} for i=1,200 do t={t} end return t",
    "return setmetatable({}, {__index=function() return 1 end})",
    "return setmetatable({1,2,3}, {__len=function() return 1e9 end, __index=function(t,k) return k end})",
    "local t={} t.a=t return {t, t, {t}}",
    "return string.rep('x', 2^31)",
    "return {string.rep('x', 2^20), string.rep('y', 2^20)}",
    "local t={} for i=1,2000000 do t[i]=i end return t",
    "return {1, nil, 3, {nil, {nil}}, false, true, 1e400, -1e400, 0/0, 2^63, -2^63, 2^53+1}",
    "return redis.call('SETBIT', KEYS[1], '18446744073709551615', '1')",
    "return redis.call('SETBIT', KEYS[1], '40000000000000', '1')",
    "return redis.call('GETBIT', KEYS[1], '18446744073709551615')",
    "return redis.call('BITCOUNT', KEYS[2])",
    "return redis.call('BITCOUNT', KEYS[1], '5', '2')",
    "return redis.call('BITCOUNT', KEYS[1], '-9223372036854775808', '9223372036854775807')",
    "return redis.error_reply(string.rep('e', 2^20))",
    "return redis.status_reply(nil)",
    "error({})",
    "error(setmetatable({}, {__tostring=function() error('again') end}))",
    "return redis.call()",
    "return redis.call({})",
    "return redis.call('GET', {})",
    "return redis.pcall('EVAL', 'return 1', '0')",
    "local function f() return 1 + f() end return f()",
    "return tostring(redis)",
    "return loadstring('\\27Lua\\81\\0\\1\\4\\8\\4\\8\\0\\0\\0\\0\\0\\0\\0\\0\\64')",
    "return loadstring('return 1')()",
    "return select('#', unpack({}, 1, 1e7))",
];
fn script_probe(k: usize) -> V {
    V::Array(vec![V::Bulk(b"EVAL".to_vec()), V::Bulk(HOSTILE_SCRIPTS[k % HOSTILE_SCRIPTS.len()].as_bytes().to_vec()), V::Bulk(b"2".to_vec()), V::Bulk(b"s".to_vec()), V::Bulk(b"empty".to_vec())])
}

fn gen_probe(r: &mut Rng, names: &[String]) -> V {
    let name = r.pick(names).clone();
    let n = r.below(6) as usize;
    let mut args = vec![V::Bulk(name.into_bytes())];
    for _ in 0..n {
        args.push(match r.below(20) {
            0..=6 => V::Bulk(r.pick(KEYS).to_vec()),
            7..=14 => V::Bulk(r.pick(NUMS).to_vec()),
            15..=17 => V::Bulk(r.pick(WORDS).to_vec()),
            18 => V::Int(r.range(-3, 3)),
            _ => V::Array(vec![V::Bulk(b"nested".to_vec())]),
        });
    }
    V::Array(args)
}

const HOSTILE_KINDS: u64 = 18;
fn hostile_bytes(r: &mut Rng) -> Vec<u8> { let k = r.below(HOSTILE_KINDS); hostile_kind(r, k) }
fn hostile_kind(r: &mut Rng, kind: u64) -> Vec<u8> {
    match kind {
        // declared lengths within a few dozen of 2^64: `header + length + 2` must not overflow
        16 => { let l = u64::MAX - r.below(30); let t = *r.pick(b"$*%~"); let mut v = b"*2\r\n$4\r\nECHO\r\n".to_vec(); v.push(t); v.extend_from_slice(format!("{}", l).as_bytes()); v.extend_from_slice(b"\r\n"); v }
        17 => { let l = u64::MAX - 1; let mut v = vec![b'$']; v.extend_from_slice(format!("{}", l).as_bytes()); v.extend_from_slice(b"\r\nab\r\n"); v }
        0 => b"*9223372036854775807\r\n".to_vec(),
        1 => b"%18446744073709551615\r\n".to_vec(),
        2 => b"~99999999999\r\n".to_vec(),
        3 => { let mut v = vec![]; for _ in 0..100000 { v.extend_from_slice(b"*1\r\n"); } v }
        4 => b"$9223372036854775807\r\nabc".to_vec(),
        5 => b"*1\r\n$-9\r\n".to_vec(),
        6 => { let mut v = b"*3\r\n$3\r\nSET\r\n$1\r\nk\r\n$100000000\r\n".to_vec(); v.extend(vec![b'x'; 1000]); v }
        7 => (0..(1 + r.below(200))).map(|_| r.below(256) as u8).collect(),
        8 => b"*1000000000\r\n".to_vec(),
        9 => { let mut v = vec![]; for _ in 0..40 { v.extend_from_slice(b"%1\r\n"); } v }
        10 => b"\x00\x00\x00\x00".to_vec(),
        // every recursive position of every aggregate, far beyond any stack: array element, set member,
        // map key, map value (after a scalar key), and random mixtures of the four
        11 => { let mut v = vec![]; for _ in 0..60000 { v.extend_from_slice(b"%1\r\n+k\r\n"); } v }
        12 => { let mut v = vec![]; for _ in 0..100000 { v.extend_from_slice(b"~1\r\n"); } v }
        13 => { let mut v = vec![]; for _ in 0..100000 { v.extend_from_slice(b"%1\r\n"); } v }
        14 => { let mut v = vec![]; for _ in 0..60000 { v.extend_from_slice(match r.below(5) { 0 => &b"*1\r\n"[..], 1 => &b"~1\r\n"[..], 2 => &b"%1\r\n"[..], 3 => &b"%1\r\n:1\r\n"[..], _ => &b"*2\r\n$1\r\nx\r\n"[..] }); } v }
        _ => { let alpha = b"+-:$*_#,%~0123456789\r\nPING"; (0..(1 + r.below(60))).map(|_| *r.pick(alpha)).collect() }
    }
}

pub fn gen(seed: u64, n: usize, _tier: &str) -> Vec<Case> {
    let mut r = Rng::new(seed);
    let names: Vec<String> = dispatch_names().into_iter().filter(|x| !EXCLUDED.contains(&x.as_str())).collect();
    let mut cases = vec![];
    let per = 40;
    // every hostile family once, whatever the seed
    cases.push(Case { id: "hostile-all".to_string(), ops: (0..HOSTILE_KINDS).map(|k| vec![b("PROBERAW"), bv(&hostile_kind(&mut r, k))]).collect(), outs: vec![] });
    // life cycles: a key of each type is filled and emptied again, at several sizes and by every emptying
    // command - the bookkeeping beside the data (per-stream memory counters, lengths, the deadline index)
    // is decremented as often as it was incremented
    {
        let w = |args: &[&[u8]], out: &mut Vec<u8>| { V::cmd(args).wire(out); };
        let mut ops = vec![];
        for n in [1usize, 3, 4, 5, 8, 50, 300] {
            let nb = format!("{}", n); let half = format!("{}", n / 2);
            // streams with generated and with explicit IDs
            for auto in [true, false] {
                for how in 0..4 {
                    let mut d = vec![];
                    for k in 0..n { let id = format!("{}-1", k + 1); w(&[b"XADD", b"lc", if auto { b"*" } else { id.as_bytes() }, b"field", b"value"], &mut d); }
                    match how {
                        0 => w(&[b"XTRIM", b"lc", b"MAXLEN", b"0"], &mut d),
                        1 => { w(&[b"XTRIM", b"lc", b"MAXLEN", half.as_bytes()], &mut d); w(&[b"XTRIM", b"lc", b"MAXLEN", b"1"], &mut d); w(&[b"XTRIM", b"lc", b"MAXLEN", b"0"], &mut d); }
                        2 => w(&[b"XTRIM", b"lc", b"MINID", b"18446744073709551615-18446744073709551615"], &mut d),
                        _ => { for k in 0..n { let id = format!("{}-1", k + 1); w(&[b"XDEL", b"lc", id.as_bytes()], &mut d); } w(&[b"XTRIM", b"lc", b"MAXLEN", b"0"], &mut d); }
                    }
                    w(&[b"XADD", b"lc", b"*", b"f", b"v"], &mut d); w(&[b"XTRIM", b"lc", b"MAXLEN", b"0"], &mut d); w(&[b"XLEN", b"lc"], &mut d); w(&[b"DEL", b"lc"], &mut d);
                    ops.push(vec![b("PROBERAW"), bv(&d)]);
                }
            }
            // list, set, hash, sorted set: filled, emptied element by element and by range, filled again
            let mut d = vec![];
            for k in 0..n { let e = format!("e{}", k); w(&[b"RPUSH", b"lcl", e.as_bytes()], &mut d); w(&[b"SADD", b"lcs", e.as_bytes()], &mut d); w(&[b"HSET", b"lch", e.as_bytes(), b"1"], &mut d); w(&[b"ZADD", b"lcz", nb.as_bytes(), e.as_bytes()], &mut d); }
            for k in 0..n { let e = format!("e{}", k); w(&[b"LPOP", b"lcl"], &mut d); w(&[b"SREM", b"lcs", e.as_bytes()], &mut d); w(&[b"HDEL", b"lch", e.as_bytes()], &mut d); w(&[b"ZREM", b"lcz", e.as_bytes()], &mut d); }
            for k in 0..n { let e = format!("e{}", k); w(&[b"LPUSH", b"lcl", e.as_bytes()], &mut d); w(&[b"ZADD", b"lcz", b"1", e.as_bytes()], &mut d); }
            w(&[b"LTRIM", b"lcl", b"1", b"0"], &mut d); w(&[b"ZREMRANGEBYRANK", b"lcz", b"0", b"-1"], &mut d); w(&[b"SPOP", b"lcs", nb.as_bytes()], &mut d);
            w(&[b"LLEN", b"lcl"], &mut d); w(&[b"ZCARD", b"lcz"], &mut d); w(&[b"DBSIZE"], &mut d);
            ops.push(vec![b("PROBERAW"), bv(&d)]);
        }
        cases.push(Case { id: "lifecycles".to_string(), ops, outs: vec![] });
    }
    // every hostile script once, whatever the seed
    cases.push(Case { id: "hostile-scripts".to_string(), ops: (0..HOSTILE_SCRIPTS.len()).map(|k| { let mut o = vec![b("PROBE")]; script_probe(k).enc(&mut o); o }).collect(), outs: vec![] });
    let mut xnames: Vec<String> = executor_names().into_iter().filter(|x| !EXCLUDED.contains(&x.as_str())).collect();
    if xnames.is_empty() { xnames = names.clone(); }
    for id in 0..(n / per).max(1) {
        let mut ops = vec![];
        for _ in 0..per {
            if r.chance(1, 6) { ops.push(vec![b("PROBERAW"), bv(&hostile_bytes(&mut r))]); }
            else if r.chance(1, 4) { let mut o = vec![b("PROBE")]; gen_script_probe(&mut r, &xnames).enc(&mut o); ops.push(o); }
            else if r.chance(1, 40) { let mut o = vec![b("PROBE")]; let k = r.below(HOSTILE_SCRIPTS.len() as u64) as usize; script_probe(k).enc(&mut o); ops.push(o); }
            else { let mut o = vec![b("PROBE")]; gen_probe(&mut r, &names).enc(&mut o); ops.push(o); }
        }
        cases.push(Case { id: format!("probe-{}", id), ops, outs: vec![] });
    }
    cases
}

/// alive, serving a fresh connection, sentinel intact.  A server that is merely slow (a 20 MB reply, a 256 MB
/// value, sixteen servers of the other shards and whatever else the machine runs) is given time as long as its
/// process lives: "hung" means no answer for 60 s, "dead" is decided at once.
fn healthy(srv: &mut Srv) -> bool {
    if !srv.alive() { return false; }
    let t0 = std::time::Instant::now();
    while t0.elapsed() < Duration::from_secs(60) {
        if !srv.alive() { return false; }
        if let Some(mut c) = Client::connect(srv.port) {
            let mut w = vec![]; V::cmd(&[b"PING"]).wire(&mut w); V::cmd(&[b"GET", b"sentinel"]).wire(&mut w); c.send(&w);
            let a = c.read(4000); let b2 = c.read(4000);
            if matches!(a, Rd::Val(V::Simple(ref s)) if s == b"PONG") && matches!(b2, Rd::Val(V::Bulk(ref s)) if s == b"intact") { return true; }
        }
        std::thread::sleep(Duration::from_millis(50));
    }
    false
}

pub fn run(c: &Case) -> Case {
    let mut out = Case { id: c.id.clone(), ops: vec![], outs: vec![] };
    let mut srv: Option<Srv> = None;
    for op in &c.ops {
        if srv.is_none() {
            let s = Srv::start(&SrvOpts::default());
            if let Some(mut cl) = Client::connect(s.port) {
                for cmd in seed_ops() { let refs: Vec<&[u8]> = cmd.iter().map(|x| &x[..]).collect(); let mut w = vec![]; V::cmd(&refs).wire(&mut w); cl.send(&w); let _ = cl.read(3000); }
            }
            srv = Some(s);
        }
        let s = srv.as_mut().unwrap();
        let mut wire = vec![];
        if tok_bytes(&op[0]) == b"PROBE" { let mut pos = 1; if let Some(v) = V::dec(op, &mut pos) { v.wire(&mut wire); } } else { wire = tok_bytes(&op[1]).to_vec(); }
        if let Some(mut cl) = Client::connect(s.port) {
            cl.send(&wire);
            let _ = cl.read(250);          // a reply, an error, or nothing (blocking command / incomplete frame): all fine
        }
        let ok = healthy(s);
        out.ops.push(op.clone()); out.outs.push(vec![i(ok as i64)]);
        if !ok { if let Some(s) = srv.take() { s.stop(false); } }   // restart for the next probe
    }
    if let Some(s) = srv.take() { s.stop(false); }
    out
}

pub fn judge(c: &Case, outs: &[Vec<Tok>]) -> Vec<String> {
    let mut f = vec![];
    for (k, o) in outs.iter().enumerate() {
        if o != &vec![i(1)] { f.push(format!("FAIL case={} op={} server dead, hung or sentinel lost after this input", c.id, k)); }
    }
    f
}
