//! C07: MULTI/EXEC queues, runs in order, all or nothing; per-connection state.
use crate::rng::Rng;
use crate::srv::*;
use crate::tok::*;
use crate::c01;

fn push_cmd(ops: &mut Vec<Vec<Tok>>, c: i64, v: &[Vec<u8>]) { let refs: Vec<&[u8]> = v.iter().map(|x| &x[..]).collect(); ops.push(cmd_op(c, &refs)); }

pub fn gen(seed: u64, n: usize, _tier: &str) -> Vec<Case> {
    let mut r = Rng::new(seed);
    let mut cases = vec![];
    for id in 0..n {
        let nconn = 2 + r.below(3) as i64;
        let mut ops = vec![];
        for c in 1..=nconn { ops.push(conn_op(c)); }
        let mut intx = vec![false; 6];
        let mut open = vec![true; 6];
        for _ in 0..(6 + r.below(45)) {
            let c = 1 + r.below(nconn as u64) as i64;
            if !open[c as usize] { continue; }
            match r.below(20) {
                0 | 1 | 2 => { ops.push(cmd_op(c, &[b"MULTI"])); intx[c as usize] = true; }
                3 | 4 | 5 => { ops.push(cmd_op(c, &[b"EXEC"])); intx[c as usize] = false; }
                6 => { ops.push(cmd_op(c, &[b"DISCARD"])); intx[c as usize] = false; }
                7 => if r.chance(1, 3) { ops.push(close_op(c)); open[c as usize] = false; intx[c as usize] = false; },
                8 => ops.push(cmd_op(c, &[b"WATCH", *r.pick(c01::KEYS)])),
                9 => ops.push(cmd_op(c, &[b"UNWATCH"])),
                10 => ops.push(cmd_op(c, &[b"NOSUCHCMD", b"x"])),       // queued without validation, fails at EXEC
                11 => ops.push(cmd_op(c, &[b"INCR", b"k1"])),
                12 => ops.push(cmd_op(c, &[b"SELECT", *r.pick(&[&b"0"[..], b"1", b"16"])])),
                13 => if r.chance(1, 4) { ops.push(cmd_op(c, &[b"QUIT"])); open[c as usize] = false; intx[c as usize] = false; },
                _ => { let v = c01::gen_cmd(&mut r); if v[0] != b"RANDOMKEY" { push_cmd(&mut ops, c, &v); } }
            }
        }
        ops.push(conn_op(9));
        c01::dump_ops(9, &mut ops);
        ops.push(cmd_op(9, &[b"SELECT", b"1"]));
        ops.push(cmd_op(9, &[b"KEYS", b"*"]));
        cases.push(Case { id: format!("tx-{}", id), ops, outs: vec![] });
    }
    // atomicity towards clients blocked on a key of the transaction: these histories use the blocking ops
    // (BCONN ..) and are evaluated by the event-loop model of C13 (ocaml/driver.ml picks the runner per case)
    cases.extend(crate::c13::gen_exec_atomic());
    cases
}
pub fn run(c: &Case) -> Case { run_case(c, &SrvOpts::default()) }
