//! C08: WATCH aborts EXEC iff a watched key changed. Catalogue runs + random histories.
use crate::rng::Rng;
use crate::srv::*;
use crate::tok::*;
use crate::c01;

fn push_cmd(ops: &mut Vec<Vec<Tok>>, c: i64, v: &[Vec<u8>]) { let refs: Vec<&[u8]> = v.iter().map(|x| &x[..]).collect(); ops.push(cmd_op(c, &refs)); }
fn b2(s: &[u8]) -> Vec<u8> { s.to_vec() }

/// write commands of the modelled catalogue applied to key `k` (other key `o`)
pub fn writers(k: &[u8], o: &[u8]) -> Vec<Vec<Vec<u8>>> {
    let c = |a: &[&[u8]]| -> Vec<Vec<u8>> { a.iter().map(|x| x.to_vec()).collect() };
    vec![
        c(&[b"SET", k, b"new"]), c(&[b"SET", k, b"new", b"NX"]), c(&[b"SET", k, b"new", b"XX"]), c(&[b"SET", k, b"v", b"EX", b"100"]),
        c(&[b"SETNX", k, b"new"]), c(&[b"SETEX", k, b"100", b"new"]), c(&[b"PSETEX", k, b"100000", b"new"]),
        c(&[b"GETSET", k, b"new"]), c(&[b"MSET", o, b"1", k, b"new"]), c(&[b"APPEND", k, b"x"]), c(&[b"APPEND", k, b""]),
        c(&[b"SETRANGE", k, b"1", b"zz"]), c(&[b"INCR", k]), c(&[b"DECR", k]), c(&[b"INCRBY", k, b"5"]), c(&[b"DECRBY", k, b"0"]),
        c(&[b"DEL", k]), c(&[b"DEL", o, k]), c(&[b"EXPIRE", k, b"100"]), c(&[b"EXPIRE", k, b"0"]), c(&[b"PEXPIRE", k, b"100000"]),
        c(&[b"PEXPIREAT", k, b"9999999999999"]), c(&[b"PEXPIREAT", k, b"0"]), c(&[b"PEXPIREAT", k, b"x"]),
        c(&[b"PERSIST", k]), c(&[b"RENAME", k, o]), c(&[b"RENAME", o, k]), c(&[b"RENAMENX", k, b"fresh"]), c(&[b"RENAMENX", o, k]),
        c(&[b"FLUSHDB"]), c(&[b"FLUSHALL"]),
        // stream writes (explicit IDs only: these may be queued inside MULTI, where an auto ID has no oracle)
        c(&[b"XADD", k, b"9-0", b"f", b"v"]), c(&[b"XADD", k, b"1-0", b"f", b"v"]), c(&[b"XTRIM", k, b"MAXLEN", b"0"]), c(&[b"XDEL", k, b"5-0"]),
        c(&[b"XGROUP", b"CREATE", k, b"g2", b"0", b"MKSTREAM"]), c(&[b"XREADGROUP", b"GROUP", b"g", b"c2", b"STREAMS", k, b">"]), c(&[b"XACK", k, b"g", b"5-0"]),
        // reads must not abort
        c(&[b"XRANGE", k, b"-", b"+"]), c(&[b"XLEN", k]), c(&[b"XPENDING", k, b"g"]),
        c(&[b"GET", k]), c(&[b"STRLEN", k]), c(&[b"EXISTS", k]), c(&[b"TTL", k]), c(&[b"TYPE", k]), c(&[b"GETRANGE", k, b"0", b"-1"]), c(&[b"MGET", k, o]),
        c(&[b"KEYS", b"*"]), c(&[b"INCR", k, b"extra"]), c(&[b"SET", k]),
        // ---- list / set / hash families (C03): every write command ...
        c(&[b"LPUSH", k, b"x"]), c(&[b"RPUSH", k, b"x", b"y"]), c(&[b"LPOP", k]), c(&[b"RPOP", k]),
        c(&[b"LSET", k, b"0", b"z"]), c(&[b"LSET", k, b"5", b"z"]), c(&[b"LSET", k, b"-1", b"a"]),
        c(&[b"LTRIM", k, b"0", b"0"]), c(&[b"LTRIM", k, b"0", b"-1"]), c(&[b"LTRIM", k, b"5", b"1"]), c(&[b"LTRIM", k, b"0", b"-100"]),
        c(&[b"LREM", k, b"0", b"a"]), c(&[b"LREM", k, b"1", b"zz"]), c(&[b"LREM", k, b"-9223372036854775808", b"a"]),
        c(&[b"SADD", k, b"a"]), c(&[b"SADD", k, b"new"]), c(&[b"SREM", k, b"a"]), c(&[b"SREM", k, b"zz"]), c(&[b"SREM", k, b"a", b"b"]),
        c(&[b"SPOP", k]), c(&[b"SPOP", k, b"0"]), c(&[b"SPOP", k, b"5"]),
        c(&[b"HSET", k, b"f", b"1"]), c(&[b"HSET", k, b"new", b"v"]), c(&[b"HSET", k, b"f", b"1", b"f", b"2"]), c(&[b"HMSET", k, b"f", b"2"]),
        c(&[b"HDEL", k, b"f"]), c(&[b"HDEL", k, b"zz"]), c(&[b"HDEL", k, b"f", b"g"]),
        c(&[b"HINCRBY", k, b"f", b"1"]), c(&[b"HINCRBY", k, b"g", b"1"]), c(&[b"HINCRBY", k, b"f", b"9223372036854775807"]),
        // ... and the reads and refused forms, which must not abort
        c(&[b"LLEN", k]), c(&[b"LRANGE", k, b"0", b"-1"]), c(&[b"LINDEX", k, b"0"]),
        c(&[b"SMEMBERS", k]), c(&[b"SISMEMBER", k, b"a"]), c(&[b"SCARD", k]), c(&[b"SUNION", k, o]), c(&[b"SINTER", k, o]), c(&[b"SDIFF", k, o]),
        c(&[b"SRANDMEMBER", k]), c(&[b"SRANDMEMBER", k, b"-2"]), c(&[b"SRANDMEMBER", k, b"-9223372036854775808"]),
        c(&[b"HGET", k, b"f"]), c(&[b"HMGET", k, b"f", b"g"]), c(&[b"HGETALL", k]), c(&[b"HLEN", k]), c(&[b"HEXISTS", k, b"f"]), c(&[b"HKEYS", k]), c(&[b"HVALS", k]),
        c(&[b"LPUSH", k]), c(&[b"LSET", k, b"x", b"z"]), c(&[b"HINCRBY", k, b"f", b"x"]), c(&[b"SPOP", k, b"-1"]),
    ]
}
/// initial states of the watched key: missing, strings, and every collection type of C03
/// (one- and several-element collections: a single pop / removal empties the former)
pub fn inits(k: &[u8]) -> Vec<Vec<Vec<Vec<u8>>>> {
    let c = |a: &[&[u8]]| -> Vec<Vec<u8>> { a.iter().map(|x| x.to_vec()).collect() };
    vec![
        vec![], vec![c(&[b"SET", k, b"10"])], vec![c(&[b"SET", k, b"text"])], vec![c(&[b"SET", k, b""])],
        vec![c(&[b"RPUSH", k, b"a", b"b", b"a"])], vec![c(&[b"RPUSH", k, b"a"])],
        vec![c(&[b"SADD", k, b"a", b"b", b"c"])], vec![c(&[b"SADD", k, b"a"])],
        vec![c(&[b"HSET", k, b"f", b"1", b"g", b"x"])], vec![c(&[b"HSET", k, b"f", b"1"])],
    ]
}

pub fn gen(seed: u64, n: usize, _tier: &str) -> Vec<Case> {
    let mut r = Rng::new(seed);
    let mut cases = vec![];
    let mut id = 0;
    // exhaustive catalogue: writer x initial value of the watched key x who writes x on which key
    let k: &[u8] = b"wk"; let o: &[u8] = b"other";
    let inits = inits(k);
    let wl = writers(k, o);
    let wl_other = writers(o, b"third");
    for (wi, w) in wl.iter().enumerate() {
        let mut ops = vec![conn_op(1), conn_op(2)];
        for (ii, init) in inits.iter().enumerate() {
            for who in 0..3 {
                // who: 0 = another connection on the watched key, 1 = same connection, 2 = another connection on OTHER keys only
                ops.push(cmd_op(2, &[b"FLUSHALL"]));
                for ic in init { push_cmd(&mut ops, 2, ic); }
                ops.push(cmd_op(2, &[b"SET", o, b"7"]));
                if ii == 1 || ii == 4 || ii == 7 || ii == 8 { ops.push(cmd_op(2, &[b"EXPIRE", k, b"1000"])); }
                ops.push(cmd_op(1, &[b"WATCH", k]));
                match who {
                    0 => push_cmd(&mut ops, 2, w),
                    1 => push_cmd(&mut ops, 1, w),
                    _ => push_cmd(&mut ops, 2, &wl_other[wi]),
                }
                ops.push(cmd_op(1, &[b"MULTI"]));
                ops.push(cmd_op(1, &[b"SET", b"probe", b"ran"]));
                ops.push(cmd_op(1, &[b"EXEC"]));
                ops.push(cmd_op(2, &[b"GET", b"probe"]));
                ops.push(cmd_op(2, &[b"DEL", b"probe"]));
            }
        }
        cases.push(Case { id: format!("cat-{}", id), ops, outs: vec![] }); id += 1;
    }
    // expiry of a watched key counts as a change: by deadline alone, after a lazy removal by a read
    // (any connection), after a sweeper pass; the sweeper is stepped through the VERIF hook
    for (ei, how) in ["deadline", "read-other", "read-self", "sweep", "exists-other", "sweep-then-recreate", "not-yet"].iter().enumerate() {
        let mut ops = vec![conn_op(1), conn_op(2), cmd_op(2, &[b"VERIF", b"SWEEP", b"PAUSE"])];
        ops.push(cmd_op(2, &[b"SET", b"wk", b"v", b"PX", b"200"]));
        ops.push(cmd_op(2, &[b"SET", b"kg", b"same-shard"]));
        ops.push(cmd_op(1, &[b"WATCH", b"wk"]));
        ops.push(cmd_op(1, &[b"GET", b"wk"]));
        if *how != "not-yet" { ops.push(sleep_op(300)); }
        match *how {
            "read-other" => ops.push(cmd_op(2, &[b"GET", b"wk"])),
            "read-self" => ops.push(cmd_op(1, &[b"GET", b"wk"])),
            "exists-other" => ops.push(cmd_op(2, &[b"EXISTS", b"wk"])),
            "sweep" => ops.push(sweep_op()),
            "sweep-then-recreate" => { ops.push(sweep_op()); ops.push(cmd_op(2, &[b"SET", b"wk", b"v"])); }
            _ => {}
        }
        ops.push(cmd_op(1, &[b"MULTI"]));
        ops.push(cmd_op(1, &[b"SET", b"probe", b"ran"]));
        ops.push(cmd_op(1, &[b"EXEC"]));
        ops.push(cmd_op(2, &[b"GET", b"probe"]));
        cases.push(Case { id: format!("expiry-{}-{}", ei, id), ops, outs: vec![] }); id += 1;
    }
    // a second WATCH of the same key keeps the first baseline (3f1b680): a change made between the two
    // WATCHes still aborts; in another database it is another watch; UNWATCH forgets both
    for (wi, how) in ["rewatch-after-change", "rewatch-no-change", "rewatch-other-db", "rewatch-then-unwatch", "watch-twice-one-command"].iter().enumerate() {
        let mut ops = vec![conn_op(1), conn_op(2), cmd_op(2, &[b"SET", b"wk", b"v"])];
        match *how {
            "rewatch-after-change" => { ops.push(cmd_op(1, &[b"WATCH", b"wk"])); ops.push(cmd_op(2, &[b"SET", b"wk", b"changed"])); ops.push(cmd_op(1, &[b"WATCH", b"wk"])); }
            "rewatch-no-change" => { ops.push(cmd_op(1, &[b"WATCH", b"wk"])); ops.push(cmd_op(1, &[b"WATCH", b"wk", b"kg"])); }
            "rewatch-other-db" => { ops.push(cmd_op(1, &[b"WATCH", b"wk"])); ops.push(cmd_op(2, &[b"SET", b"wk", b"changed"])); ops.push(cmd_op(1, &[b"SELECT", b"1"])); ops.push(cmd_op(1, &[b"WATCH", b"wk"])); }
            "rewatch-then-unwatch" => { ops.push(cmd_op(1, &[b"WATCH", b"wk"])); ops.push(cmd_op(2, &[b"SET", b"wk", b"changed"])); ops.push(cmd_op(1, &[b"WATCH", b"wk"])); ops.push(cmd_op(1, &[b"UNWATCH"])); }
            _ => { ops.push(cmd_op(1, &[b"WATCH", b"wk", b"wk", b"kg", b"wk"])); ops.push(cmd_op(2, &[b"APPEND", b"wk", b"x"])); }
        }
        ops.push(cmd_op(1, &[b"MULTI"])); ops.push(cmd_op(1, &[b"SET", b"probe", b"ran"])); ops.push(cmd_op(1, &[b"EXEC"]));
        ops.push(cmd_op(2, &[b"GET", b"probe"])); ops.push(cmd_op(2, &[b"SELECT", b"1"])); ops.push(cmd_op(2, &[b"GET", b"probe"]));
        cases.push(Case { id: format!("rewatch-{}-{}", wi, id), ops, outs: vec![] }); id += 1;
    }
    // two connections watch the same key; the OTHER one ends its watch (UNWATCH, DISCARD, an EXEC that
    // runs or aborts, closing the connection) before or after the key is changed: the first watcher's
    // EXEC still aborts exactly when the key changed after its own WATCH
    for (ei, end) in ["unwatch", "discard", "exec", "close", "rewatch-unwatch"].iter().enumerate() {
        for order in 0..3 {
            let mut ops = vec![conn_op(1), conn_op(2), conn_op(3), cmd_op(3, &[b"SET", b"wk", b"v"])];
            ops.push(cmd_op(1, &[b"WATCH", b"wk"]));
            if order == 2 { ops.push(cmd_op(3, &[b"SET", b"wk", b"changed"])); }     // changed before the other one watches
            ops.push(cmd_op(2, &[b"WATCH", b"wk", b"kg"]));
            if order == 1 { ops.push(cmd_op(3, &[b"APPEND", b"wk", b"x"])); }        // changed while both watch
            match *end {
                "unwatch" => ops.push(cmd_op(2, &[b"UNWATCH"])),
                "discard" => { ops.push(cmd_op(2, &[b"MULTI"])); ops.push(cmd_op(2, &[b"DISCARD"])); }
                "exec" => { ops.push(cmd_op(2, &[b"MULTI"])); ops.push(cmd_op(2, &[b"GET", b"wk"])); ops.push(cmd_op(2, &[b"EXEC"])); }
                "close" => ops.push(close_op(2)),
                _ => { ops.push(cmd_op(2, &[b"WATCH", b"wk"])); ops.push(cmd_op(2, &[b"UNWATCH"])); ops.push(cmd_op(2, &[b"UNWATCH"])); }
            }
            if order == 0 { ops.push(cmd_op(3, &[b"GET", b"wk"])); }                  // never changed: EXEC runs
            ops.push(cmd_op(1, &[b"MULTI"])); ops.push(cmd_op(1, &[b"SET", b"probe", b"ran"])); ops.push(cmd_op(1, &[b"EXEC"]));
            ops.push(cmd_op(3, &[b"GET", b"probe"]));
            // and a later watch of the same key by a third connection starts from a clean slate
            ops.push(cmd_op(3, &[b"WATCH", b"wk"])); ops.push(cmd_op(3, &[b"MULTI"])); ops.push(cmd_op(3, &[b"PING"])); ops.push(cmd_op(3, &[b"EXEC"]));
            cases.push(Case { id: format!("twowatch-{}-{}-{}", ei, order, id), ops, outs: vec![] }); id += 1;
        }
    }
    // WATCH on a key that is past its deadline but not yet swept (d9330f8): the key is absent when the
    // watch begins, nothing changes afterwards, EXEC runs; re-creating it afterwards aborts
    for (wi, how) in ["expired-then-watch", "expired-watch-recreate", "expired-watch-sweep", "live-watch-then-expires"].iter().enumerate() {
        let mut ops = vec![conn_op(1), conn_op(2), cmd_op(2, &[b"VERIF", b"SWEEP", b"PAUSE"])];
        ops.push(cmd_op(2, &[b"SET", b"wk", b"v", b"PX", b"200"])); ops.push(cmd_op(2, &[b"RPUSH", b"wl", b"a"])); ops.push(cmd_op(2, &[b"PEXPIRE", b"wl", b"200"]));
        if *how == "live-watch-then-expires" { ops.push(cmd_op(1, &[b"WATCH", b"wk", b"wl"])); ops.push(sleep_op(300)); }
        else { ops.push(sleep_op(300)); ops.push(cmd_op(1, &[b"WATCH", b"wk", b"wl"])); }
        match *how {
            "expired-watch-recreate" => ops.push(cmd_op(2, &[b"SET", b"wk", b"again"])),
            "expired-watch-sweep" => ops.push(sweep_op()),
            _ => {}
        }
        ops.push(cmd_op(1, &[b"MULTI"])); ops.push(cmd_op(1, &[b"SET", b"probe", b"ran"])); ops.push(cmd_op(1, &[b"EXEC"]));
        ops.push(cmd_op(2, &[b"GET", b"probe"])); ops.push(cmd_op(2, &[b"VERIF", b"INDEX", b"0"]));
        cases.push(Case { id: format!("watchexp-{}-{}", wi, id), ops, outs: vec![] }); id += 1;
    }
    // the watched key is a stream (with a group and a pending entry): stream writers, group commands, reads
    let c = |a: &[&[u8]]| -> Vec<Vec<u8>> { a.iter().map(|x| x.to_vec()).collect() };
    let stream_cmds: Vec<Vec<Vec<u8>>> = vec![
        c(&[b"XADD", k, b"9-0", b"f", b"v"]), c(&[b"XADD", k, b"1-0", b"f", b"v"]), c(&[b"XADD", k, b"*", b"f", b"v"]), c(&[b"XADD", k, b"9-0", b"f"]),
        c(&[b"XTRIM", k, b"MAXLEN", b"0"]), c(&[b"XTRIM", k, b"MAXLEN", b"100"]), c(&[b"XDEL", k, b"5-0"]), c(&[b"XDEL", k, b"99-0"]),
        c(&[b"DEL", k]), c(&[b"RENAME", k, o]), c(&[b"EXPIRE", k, b"100"]), c(&[b"PERSIST", k]), c(&[b"SET", k, b"v"]),
        // consumer-group commands change the key's group state (behind an Arc outside the engine):
        // after ed8ba04 the handlers mark the key when they changed something (formerly finding
        // stream-group-writes-unmarked).  Each is followed by its no-change twins, which must not abort.
        c(&[b"XGROUP", b"CREATE", k, b"g2", b"0"]), c(&[b"XGROUP", b"CREATE", k, b"g2", b"$", b"MKSTREAM"]), c(&[b"XGROUP", b"CREATE", k, b"g2", b"abc", b"MKSTREAM"]),
        c(&[b"XGROUP", b"CREATE", k, b"g", b"0"]),                                   // BUSYGROUP (or created when there is none)
        c(&[b"XGROUP", b"DESTROY", k, b"g"]), c(&[b"XGROUP", b"DESTROY", k, b"nogroup"]),
        c(&[b"XGROUP", b"SETID", k, b"g", b"0"]), c(&[b"XGROUP", b"SETID", k, b"g", b"$"]), c(&[b"XGROUP", b"SETID", k, b"g", b"5-"]), c(&[b"XGROUP", b"SETID", k, b"nogroup", b"0"]),
        c(&[b"XGROUP", b"CREATECONSUMER", k, b"g", b"c9"]), c(&[b"XGROUP", b"CREATECONSUMER", k, b"g", b"c1"]), c(&[b"XGROUP", b"CREATECONSUMER", k, b"nogroup", b"c1"]),
        c(&[b"XGROUP", b"DELCONSUMER", k, b"g", b"c1"]), c(&[b"XGROUP", b"DELCONSUMER", k, b"g", b"c9"]), c(&[b"XGROUP", b"DELCONSUMER", k, b"nogroup", b"c1"]),
        c(&[b"XREADGROUP", b"GROUP", b"g", b"c2", b"STREAMS", k, b">"]),
        c(&[b"XREADGROUP", b"GROUP", b"g", b"c2", b"NOACK", b"STREAMS", k, b">"]),
        c(&[b"XREADGROUP", b"GROUP", b"g", b"c2", b"COUNT", b"0", b"STREAMS", k, b">"]),      // returns nothing
        c(&[b"XREADGROUP", b"GROUP", b"g", b"c1", b"STREAMS", k, b"0"]),                        // the owner reads its history: entries
        c(&[b"XREADGROUP", b"GROUP", b"g", b"c1", b"STREAMS", k, b"5-0"]),                      // ... nothing above the ID
        c(&[b"XREADGROUP", b"GROUP", b"g", b"c2", b"STREAMS", k, b"0"]),                        // registers c2, returns nothing: marked since cc8be72
        c(&[b"XREADGROUP", b"GROUP", b"g", b"c1", b"COUNT", b"0", b"STREAMS", k, b"0"]),        // COUNT 0 = no limit (cc6cf30)
        c(&[b"XREADGROUP", b"GROUP", b"g", b"c2", b"STREAMS", k, b"18446744073709551615-18446744073709551615"]),   // registers c2 only (7d40622)
        c(&[b"XREADGROUP", b"GROUP", b"g", b"c2", b"STREAMS", o, k, b">", b">"]),               // a missing key first: NOGROUP, nothing delivered (d9160ac)
        c(&[b"XREADGROUP", b"GROUP", b"g", b"c2", b"STREAMS", k, b"nokey", b">", b"bad"]),      // a missing key after it: NOGROUP
        c(&[b"XREADGROUP", b"GROUP", b"nogroup", b"c2", b"STREAMS", k, b">"]),
        c(&[b"XACK", k, b"g", b"5-0"]), c(&[b"XACK", k, b"g", b"6-0"]), c(&[b"XACK", k, b"nogroup", b"5-0"]), c(&[b"XACK", k, b"g", b"5-"]),
        c(&[b"XCLAIM", k, b"g", b"c2", b"0", b"5-0"]), c(&[b"XCLAIM", k, b"g", b"c2", b"0", b"99-0"]), c(&[b"XCLAIM", k, b"g", b"c2", b"1000000", b"5-0"]),
        c(&[b"XCLAIM", k, b"nogroup", b"c2", b"0", b"5-0"]), c(&[b"XCLAIM", k, b"g", b"c2", b"x", b"5-0"]),
        // reads must not abort
        c(&[b"XRANGE", k, b"-", b"+"]), c(&[b"XREVRANGE", k, b"+", b"-"]), c(&[b"XLEN", k]), c(&[b"XREAD", b"STREAMS", k, b"0"]),
        c(&[b"XPENDING", k, b"g"]), c(&[b"XPENDING", k, b"g", b"-", b"+", b"10"]), c(&[b"XINFO", b"STREAM", k]), c(&[b"XINFO", b"GROUPS", k]),
        c(&[b"XINFO", b"CONSUMERS", k, b"g"]), c(&[b"TYPE", k]),
    ];
    for w in stream_cmds.iter() {
        let mut ops = vec![conn_op(1), conn_op(2)];
        for init in 0..4 {
            for who in 0..2 {
                ops.push(cmd_op(2, &[b"FLUSHALL"]));
                // init: 0 = no key, 1 = stream with one entry, 2 = + group g with entry 5-0 pending for c1 and 6-0 undelivered, 3 = like 2 with a TTL
                if init >= 1 { ops.push(cmd_op(2, &[b"XADD", k, b"5-0", b"f", b"v"])); }
                if init >= 2 {
                    ops.push(cmd_op(2, &[b"XGROUP", b"CREATE", k, b"g", b"0"]));
                    ops.push(cmd_op(2, &[b"XREADGROUP", b"GROUP", b"g", b"c1", b"STREAMS", k, b">"]));
                    ops.push(cmd_op(2, &[b"XADD", k, b"6-0", b"f", b"w"]));
                }
                if init == 3 { ops.push(cmd_op(2, &[b"EXPIRE", k, b"1000"])); }
                ops.push(cmd_op(1, &[b"WATCH", k]));
                push_cmd(&mut ops, if who == 0 { 2 } else { 1 }, w);
                ops.push(cmd_op(1, &[b"MULTI"]));
                ops.push(cmd_op(1, &[b"SET", b"probe", b"ran"]));
                ops.push(cmd_op(1, &[b"EXEC"]));
                ops.push(cmd_op(2, &[b"GET", b"probe"]));
                ops.push(cmd_op(2, &[b"DEL", b"probe"]));
                ops.push(cmd_op(2, &[b"XLEN", k]));
                ops.push(cmd_op(2, &[b"XPENDING", k, b"g"]));
            }
        }
        cases.push(Case { id: format!("xcat-{}", id), ops, outs: vec![] }); id += 1;
    }
    // writer inside another connection's EXEC; UNWATCH / DISCARD / EXEC forget; WATCH under another db
    for _ in 0..n {
        let mut ops = vec![conn_op(1), conn_op(2), conn_op(3)];
        let keys: &[&[u8]] = &[b"wk", b"other", b"k1", b"k2", b"kg", b"ka"];
        for _ in 0..(8 + r.below(40)) {
            let c = 1 + r.below(3) as i64;
            match r.below(16) {
                0 | 1 => ops.push(cmd_op(c, &[b"WATCH", *r.pick(keys)])),
                2 => ops.push(cmd_op(c, &[b"WATCH", *r.pick(keys), *r.pick(keys)])),
                3 => ops.push(cmd_op(c, &[b"UNWATCH"])),
                4 | 5 => ops.push(cmd_op(c, &[b"MULTI"])),
                6 | 7 => ops.push(cmd_op(c, &[b"EXEC"])),
                8 => ops.push(cmd_op(c, &[b"DISCARD"])),
                9 => ops.push(cmd_op(c, &[b"SELECT", *r.pick(&[&b"0"[..], b"1"])])),
                _ => {
                    let kk = *r.pick(keys); let oo = *r.pick(keys); let w = writers(kk, oo);
                    // SPOP / SRANDMEMBER may end up queued in a MULTI, where the runner has no oracle for the
                    // model: they are covered by the catalogue above (outside MULTI) only
                    let mut v = r.pick(&w).clone();
                    while v[0] == b"SPOP" || v[0] == b"SRANDMEMBER" { v = r.pick(&w).clone(); }
                    push_cmd(&mut ops, c, &v);
                }
            }
        }
        ops.push(conn_op(9));
        for kk in keys { ops.push(cmd_op(9, &[b"GET", kk])); ops.push(cmd_op(9, &[b"TYPE", kk])); ops.push(cmd_op(9, &[b"XRANGE", kk, b"-", b"+"])); ops.push(cmd_op(9, &[b"XPENDING", kk, b"g"])); }
        let _ = b2;
        cases.push(Case { id: format!("rnd-{}", id), ops, outs: vec![] }); id += 1;
    }
    let _ = c01::KEYS;
    cases
}
pub fn run(c: &Case) -> Case { run_case(c, &SrvOpts::default()) }
