//! C08: WATCH aborts EXEC iff a watched key changed. Catalogue runs + random histories.
use crate::rng::Rng;
use crate::srv::*;
use crate::tok::*;
use crate::c01;

fn push_cmd(ops: &mut Vec<Vec<Tok>>, c: i64, v: &[Vec<u8>]) { let refs: Vec<&[u8]> = v.iter().map(|x| &x[..]).collect(); ops.push(cmd_op(c, &refs)); }
fn b2(s: &[u8]) -> Vec<u8> { s.to_vec() }

/// write commands of the modelled catalogue applied to key `k` (other key `o`)
pub fn writers(k: &[u8], o: &[u8]) -> Vec<Vec<Vec<u8>>> {
    let c = |a: &[&[u8]]| -> Vec<Vec<u8>> { a.iter().map(|x| x.to_vec()).collect() };
    vec![
        c(&[b"SET", k, b"new"]), c(&[b"SET", k, b"new", b"NX"]), c(&[b"SET", k, b"new", b"XX"]), c(&[b"SET", k, b"v", b"EX", b"100"]),
        c(&[b"SETNX", k, b"new"]), c(&[b"SETEX", k, b"100", b"new"]), c(&[b"PSETEX", k, b"100000", b"new"]),
        c(&[b"GETSET", k, b"new"]), c(&[b"MSET", o, b"1", k, b"new"]), c(&[b"APPEND", k, b"x"]), c(&[b"APPEND", k, b""]),
        c(&[b"SETRANGE", k, b"1", b"zz"]), c(&[b"INCR", k]), c(&[b"DECR", k]), c(&[b"INCRBY", k, b"5"]), c(&[b"DECRBY", k, b"0"]),
        c(&[b"DEL", k]), c(&[b"DEL", o, k]), c(&[b"EXPIRE", k, b"100"]), c(&[b"EXPIRE", k, b"0"]), c(&[b"PEXPIRE", k, b"100000"]),
        c(&[b"PERSIST", k]), c(&[b"RENAME", k, o]), c(&[b"RENAME", o, k]), c(&[b"RENAMENX", k, b"fresh"]), c(&[b"RENAMENX", o, k]),
        c(&[b"FLUSHDB"]), c(&[b"FLUSHALL"]),
        // reads must not abort
        c(&[b"GET", k]), c(&[b"STRLEN", k]), c(&[b"EXISTS", k]), c(&[b"TTL", k]), c(&[b"TYPE", k]), c(&[b"GETRANGE", k, b"0", b"-1"]), c(&[b"MGET", k, o]),
        c(&[b"KEYS", b"*"]), c(&[b"INCR", k, b"extra"]), c(&[b"SET", k]),
    ]
}

pub fn gen(seed: u64, n: usize, _tier: &str) -> Vec<Case> {
    let mut r = Rng::new(seed);
    let mut cases = vec![];
    let mut id = 0;
    // exhaustive catalogue: writer x initial value of the watched key x who writes x on which key
    let inits: Vec<Option<&[u8]>> = vec![None, Some(b"10"), Some(b"text"), Some(b"")];
    let k: &[u8] = b"wk"; let o: &[u8] = b"other";
    let wl = writers(k, o);
    let wl_other = writers(o, b"third");
    for (wi, w) in wl.iter().enumerate() {
        let mut ops = vec![conn_op(1), conn_op(2)];
        for (ii, init) in inits.iter().enumerate() {
            for who in 0..3 {
                // who: 0 = another connection on the watched key, 1 = same connection, 2 = another connection on OTHER keys only
                ops.push(cmd_op(2, &[b"FLUSHALL"]));
                if let Some(v) = init { ops.push(cmd_op(2, &[b"SET", k, v])); }
                ops.push(cmd_op(2, &[b"SET", o, b"7"]));
                if ii == 1 { ops.push(cmd_op(2, &[b"EXPIRE", k, b"1000"])); }
                ops.push(cmd_op(1, &[b"WATCH", k]));
                match who {
                    0 => push_cmd(&mut ops, 2, w),
                    1 => push_cmd(&mut ops, 1, w),
                    _ => push_cmd(&mut ops, 2, &wl_other[wi]),
                }
                ops.push(cmd_op(1, &[b"MULTI"]));
                ops.push(cmd_op(1, &[b"SET", b"probe", b"ran"]));
                ops.push(cmd_op(1, &[b"EXEC"]));
                ops.push(cmd_op(2, &[b"GET", b"probe"]));
                ops.push(cmd_op(2, &[b"DEL", b"probe"]));
            }
        }
        cases.push(Case { id: format!("cat-{}", id), ops, outs: vec![] }); id += 1;
    }
    // writer inside another connection's EXEC; UNWATCH / DISCARD / EXEC forget; WATCH under another db
    for _ in 0..n {
        let mut ops = vec![conn_op(1), conn_op(2), conn_op(3)];
        let keys: &[&[u8]] = &[b"wk", b"other", b"k1", b"k2", b"kg", b"ka"];
        for _ in 0..(8 + r.below(40)) {
            let c = 1 + r.below(3) as i64;
            match r.below(16) {
                0 | 1 => ops.push(cmd_op(c, &[b"WATCH", *r.pick(keys)])),
                2 => ops.push(cmd_op(c, &[b"WATCH", *r.pick(keys), *r.pick(keys)])),
                3 => ops.push(cmd_op(c, &[b"UNWATCH"])),
                4 | 5 => ops.push(cmd_op(c, &[b"MULTI"])),
                6 | 7 => ops.push(cmd_op(c, &[b"EXEC"])),
                8 => ops.push(cmd_op(c, &[b"DISCARD"])),
                9 => ops.push(cmd_op(c, &[b"SELECT", *r.pick(&[&b"0"[..], b"1"])])),
                _ => { let kk = *r.pick(keys); let oo = *r.pick(keys); let w = writers(kk, oo); let v = r.pick(&w).clone(); push_cmd(&mut ops, c, &v); }
            }
        }
        ops.push(conn_op(9));
        for kk in keys { ops.push(cmd_op(9, &[b"GET", kk])); }
        let _ = b2;
        cases.push(Case { id: format!("rnd-{}", id), ops, outs: vec![] }); id += 1;
    }
    let _ = c01::KEYS;
    cases
}
pub fn run(c: &Case) -> Case { run_case(c, &SrvOpts::default()) }
