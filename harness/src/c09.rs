//! C09 (and the runner shared with C10): RDB persistence, in-process.
//! Ops and outputs are documented in coq/Model/RunRdb.v.
use crate::rng::Rng;
use crate::tok::*;
use ferrous::storage::stream::StreamId;
use ferrous::storage::{GetResult, RdbConfig, RdbEngine, StorageEngine, Value};
use std::collections::HashMap;
use std::io::Write;
use std::panic::{catch_unwind, AssertUnwindSafe};
use std::path::PathBuf;
use std::sync::Arc;
use std::time::{Duration, Instant, SystemTime, UNIX_EPOCH};

pub const MARKER: &[u8] = b"__FERROUS_STREAM_MARKER__";

// ---------------------------------------------------------------- stdout of the library
extern "C" { fn dup(fd: i32) -> i32; fn dup2(a: i32, b: i32) -> i32; }
/// rdb.rs prints progress lines with println!; keep them out of the case stream:
/// returns a writer on the original stdout and points fd 1 at /dev/null.
pub fn quiet_stdout() -> std::fs::File {
    use std::os::unix::io::{AsRawFd, FromRawFd};
    unsafe {
        let saved = dup(1);
        let null = std::fs::OpenOptions::new().write(true).open("/dev/null").unwrap();
        dup2(null.as_raw_fd(), 1);
        std::fs::File::from_raw_fd(saved)
    }
}

pub fn overflow_checks_on() -> bool {
    catch_unwind(|| { let x: u8 = std::hint::black_box(255u8); let y = x + std::hint::black_box(1u8); std::hint::black_box(y); }).is_err()
}

// ---------------------------------------------------------------- canonical dump / hash
fn val_toks(v: &Value, out: &mut Vec<Tok>) {
    match v {
        Value::String(b) => { out.push(i(0)); out.push(bv(b)); }
        Value::List(l) => { out.push(i(1)); out.push(i(l.len() as i64)); for x in l { out.push(bv(x)); } }
        Value::Set(s) => { out.push(i(2)); out.push(i(s.len() as i64)); let mut m: Vec<&Vec<u8>> = s.iter().collect(); m.sort(); for x in m { out.push(bv(x)); } }
        Value::Hash(h) => { out.push(i(3)); out.push(i(h.len() as i64)); let mut m: Vec<(&Vec<u8>, &Vec<u8>)> = h.iter().collect(); m.sort(); for (f, v) in m { out.push(bv(f)); out.push(bv(v)); } }
        Value::SortedSet(z) => {
            let items = z.range_by_rank(0, usize::MAX).items;
            out.push(i(4)); out.push(i(items.len() as i64));
            for (m, s) in items { out.push(bv(&m)); out.push(Tok::I(s.to_bits() as i128)); }
        }
        Value::Stream(s) => {
            let es = s.range(&StreamId::min(), &StreamId::max(), None, false).entries;
            out.push(i(5)); out.push(i(es.len() as i64));
            for e in es {
                out.push(Tok::I(e.id.millis() as i128)); out.push(Tok::I(e.id.seq() as i128)); out.push(i(e.fields.len() as i64));
                let mut m: Vec<(&Vec<u8>, &Vec<u8>)> = e.fields.iter().collect(); m.sort();
                for (f, v) in m { out.push(bv(f)); out.push(bv(v)); }
            }
        }
    }
}

/// (tokens, ttl list).  flags = true: TTL shown as 0/1 only.
pub fn dump_engine(eng: &Arc<StorageEngine>, flags: bool) -> (Vec<Tok>, Vec<i128>) {
    let mut out = vec![]; let mut ttls = vec![];
    for db in 0..eng.database_count() {
        let mut keys = eng.get_all_keys(db).unwrap_or_default();
        keys.sort();
        let mut rows: Vec<(Vec<u8>, i128, Vec<Tok>)> = vec![];
        for k in keys {
            if let Ok(GetResult::Found(v)) = eng.get(db, &k) {
                let ttl = match eng.ttl(db, &k) { Ok(Some(d)) => d.as_millis() as i128, _ => -1 };
                let mut vt = vec![]; val_toks(&v, &mut vt);
                rows.push((k, ttl, vt));
            }
        }
        if rows.is_empty() { continue; }
        out.push(i(db as i64)); out.push(i(rows.len() as i64));
        for (k, ttl, vt) in rows {
            out.push(bv(&k));
            out.push(Tok::I(if flags { if ttl >= 0 { 1 } else { 0 } } else { ttl }));
            ttls.push(ttl);
            out.extend(vt);
        }
    }
    (out, ttls)
}

const HMOD: u64 = 2147483647;
fn hstep(st: &mut (u64, u64), v: u64) { st.0 = (st.0 + v + 1) % HMOD; st.1 = (st.1 + st.0) % HMOD; }
pub fn hash_toks(l: &[Tok]) -> i128 {
    let mut st = (0u64, 0u64);
    for t in l {
        match t {
            Tok::I(z) => { hstep(&mut st, 1); hstep(&mut st, z.rem_euclid(HMOD as i128) as u64); }
            Tok::B(b) => { hstep(&mut st, 2); hstep(&mut st, b.len() as u64); for c in b { hstep(&mut st, *c as u64); } }
        }
    }
    st.0 as i128 + (HMOD as i128) * st.1 as i128
}

// ---------------------------------------------------------------- environment of one case
static COUNTER: std::sync::atomic::AtomicU64 = std::sync::atomic::AtomicU64::new(0);

pub struct Env {
    pub eng: Arc<StorageEngine>,
    pub dir: PathBuf,
    pub t0: Instant,
    pub slept: Duration,
    pub chk: bool,
    pub done_ops: Vec<Vec<Tok>>,
}

fn wall_ms() -> i128 { SystemTime::now().duration_since(UNIX_EPOCH).unwrap().as_millis() as i128 }

fn driver_path() -> PathBuf {
    if let Ok(p) = std::env::var("VERIF_DRIVER") { return PathBuf::from(p); }
    let p = PathBuf::from("ocaml/driver");
    if p.exists() { return p; }
    PathBuf::from("build/ocaml/driver")
}

/// ask the extracted model for the bytes it writes for the current history
fn model_bytes(prop: &str, ops: &[Vec<Tok>]) -> Option<Vec<u8>> {
    let mut c = std::process::Command::new(driver_path());
    c.arg(prop).arg("--emit").stdin(std::process::Stdio::piped()).stdout(std::process::Stdio::piped()).stderr(std::process::Stdio::null());
    let mut ch = c.spawn().ok()?;
    {
        let mut si = ch.stdin.take()?;
        let mut buf = Vec::new();
        write_case(&mut buf, &Case { id: "emit".into(), ops: ops.to_vec(), outs: vec![] });
        si.write_all(&buf).ok()?;
    }
    let o = ch.wait_with_output().ok()?;
    let text = String::from_utf8_lossy(&o.stdout);
    let last = text.lines().filter(|l| l.starts_with("MODEL")).last()?;
    let toks = line_to_toks(last.trim_start_matches("MODEL").trim());
    match toks.first() { Some(Tok::B(b)) => Some(b.clone()), _ => None }
}

impl Env {
    pub fn new() -> Env {
        let base = std::env::var("VERIF_SCRATCH").unwrap_or(if std::path::Path::new("build").is_dir() { "build/scratch-rdb".to_string() } else { "scratch-rdb".to_string() });
        let dir = PathBuf::from(base).join(format!("r{}_{}", std::process::id(), COUNTER.fetch_add(1, std::sync::atomic::Ordering::SeqCst)));
        std::fs::create_dir_all(&dir).unwrap();
        Env { eng: StorageEngine::new(), dir, t0: Instant::now(), slept: Duration::ZERO, chk: overflow_checks_on(), done_ops: vec![] }
    }
    fn rdb(&self) -> RdbEngine {
        RdbEngine::new(RdbConfig { filename: "dump.rdb".into(), dir: self.dir.to_string_lossy().to_string(), ..Default::default() })
    }
    pub fn file(&self) -> PathBuf { self.dir.join("dump.rdb") }
    fn t(&self) -> i128 { self.t0.elapsed().as_millis() as i128 }
    fn slack(&self) -> i128 { 5 + (self.t0.elapsed().saturating_sub(self.slept)).as_millis() as i128 }
    /// a usable engine for the next load (a panic may have poisoned a shard lock)
    fn clear_engine(&mut self) {
        let ok = catch_unwind(AssertUnwindSafe(|| { for d in 0..16 { self.eng.flush_db(d).unwrap(); } })).is_ok();
        if !ok { self.eng = StorageEngine::new(); }
    }
    fn load_current(&mut self) -> (i128, usize) {
        let rdb = self.rdb(); let eng = self.eng.clone();
        crate::alloc::reset();
        let r = catch_unwind(AssertUnwindSafe(|| rdb.load(&eng)));
        let m = crate::alloc::max_req();
        (match r { Ok(Ok(())) => 0, Ok(Err(_)) => 1, Err(_) => 2 }, m)
    }

    /// C10 (1): fail every write call of a save in turn (hook 23b5491: storage::rdb::verif, compiled
    /// under the ordinary `--cfg ferrous_verif`)
    #[cfg(ferrous_verif)]
    fn failsweep(&mut self) -> Vec<Tok> {
        use ferrous::storage::rdb::verif;
        let rdb = self.rdb(); let eng = self.eng.clone();
        verif::fail_at(-1);
        let ok0 = rdb.save(&eng).is_ok();
        let n = verif::calls() as i64;
        let before = std::fs::read(self.file()).ok();
        let (mut all_err, mut unchanged) = (ok0, before.is_some());
        for k in 0..n {
            verif::fail_at(k);
            let r = catch_unwind(AssertUnwindSafe(|| rdb.save(&eng)));
            if !matches!(r, Ok(Err(_))) { all_err = false; }
            if std::fs::read(self.file()).ok() != before { unchanged = false; }
        }
        verif::fail_at(-1);
        let later = rdb.save(&eng).is_ok() && { self.clear_engine(); self.load_current().0 == 0 };
        vec![Tok::I(n as i128), i(all_err as i64), i(unchanged as i64), i(later as i64)]
    }
    /// C10 (1), background path: RdbEngine::bgsave with an armed write failure must be accepted, its
    /// thread must end with the in-progress flag cleared and the dump untouched, and a later
    /// bgsave must be accepted and publish the newer data.
    #[cfg(ferrous_verif)]
    fn bgsweep(&mut self) -> Vec<Tok> {
        use ferrous::storage::rdb::verif;
        let rdb = self.rdb(); let eng = self.eng.clone();     // ONE RdbEngine: the flag lives in it
        let wait_idle = |rdb: &RdbEngine| -> bool {
            let t0 = Instant::now();
            while rdb.is_bgsave_in_progress() { if t0.elapsed() > Duration::from_secs(3) { return false; } std::thread::sleep(Duration::from_millis(1)); }
            true
        };
        verif::fail_at(-1);
        let ok0 = rdb.save(&eng).is_ok();
        let n = verif::calls() as i64;
        let before = std::fs::read(self.file()).ok();
        // data newer than the dump
        let _ = eng.set_string(0, b"bgsweep-newer".to_vec(), b"1".to_vec());
        let (mut accepted, mut cleared, mut unchanged) = (ok0, true, before.is_some());
        let mut ks: Vec<i64> = vec![0, 1, n / 3, n / 2, n - 2, n - 1];
        ks.retain(|k| *k >= 0 && *k < n); ks.dedup();
        for k in ks {
            verif::fail_at(k);
            if rdb.bgsave(eng.clone()).is_err() { accepted = false; }
            if !wait_idle(&rdb) { cleared = false; break; }
            if std::fs::read(self.file()).ok() != before { unchanged = false; }
        }
        // a later undisturbed bgsave
        verif::fail_at(-1);
        let later = rdb.bgsave(eng.clone()).is_ok() && wait_idle(&rdb);
        let has_newer = |me: &mut Env| -> bool {
            me.clear_engine();
            let ok = me.load_current().0 == 0;
            let r = ok && matches!(me.eng.get_string(0, b"bgsweep-newer"), Ok(Some(_)));
            r
        };
        let eng_keep = self.eng.clone();
        self.eng = StorageEngine::new();
        let newer = has_newer(self);
        self.eng = eng_keep;
        // failing SAVE then BGSAVE; failing BGSAVE then SAVE
        let eng = self.eng.clone();
        let _ = eng.set_string(0, b"bgsweep-newer2".to_vec(), b"2".to_vec());
        let b2 = std::fs::read(self.file()).ok();
        verif::fail_at(n / 2);
        let m1 = rdb.save(&eng).is_err() && std::fs::read(self.file()).ok() == b2;
        verif::fail_at(-1);
        let m2 = rdb.bgsave(eng.clone()).is_ok() && wait_idle(&rdb) && std::fs::read(self.file()).ok() != b2;
        let b3 = std::fs::read(self.file()).ok();
        verif::fail_at(n / 2);
        let m3 = rdb.bgsave(eng.clone()).is_ok() && wait_idle(&rdb) && std::fs::read(self.file()).ok() == b3;
        verif::fail_at(-1);
        let m4 = rdb.save(&eng).is_ok();
        let _ = eng.delete(0, b"bgsweep-newer"); let _ = eng.delete(0, b"bgsweep-newer2");
        let _ = rdb.save(&eng);
        vec![Tok::I(n as i128), i(accepted as i64), i(cleared as i64), i(unchanged as i64), i(later as i64), i(newer as i64), i((m1 && m2 && m3 && m4) as i64)]
    }
    #[cfg(not(ferrous_verif))]
    fn bgsweep(&mut self) -> Vec<Tok> { vec![b("NOHOOK")] }
    #[cfg(not(ferrous_verif))]
    fn failsweep(&mut self) -> Vec<Tok> { vec![b("NOHOOK")] }
    pub fn has_failat_hook() -> bool { cfg!(ferrous_verif) }

    /// C10: a foreground save issued while a background save is still writing (SAVE or SHUTDOWN during a
    /// BGSAVE or an auto-save): both end well, and the dump on disk loads as the dataset.  Before
    /// aa75b1d both wrote the same temporary file.  The dump file is put back as it was afterwards.
    fn saverace(&mut self) -> Vec<Tok> {
        let rdb = self.rdb(); let eng = self.eng.clone();
        let before = std::fs::read(self.file()).ok();
        // enough data for the background save to be still writing when the foreground one starts
        let blob = vec![b'x'; 65536];
        for k in 0..192 { let _ = eng.set_string(14, format!("race-{}", k).into_bytes(), blob.clone()); }
        let (mut fg_ok, mut idle, mut loads) = (true, true, true);
        for round in 0..3 {
            let started = rdb.bgsave(eng.clone()).is_ok();
            let _ = eng.set_string(14, b"race-round".to_vec(), format!("{}", round).into_bytes());
            if !matches!(catch_unwind(AssertUnwindSafe(|| rdb.save(&eng))), Ok(Ok(()))) { fg_ok = false; }
            let t0 = Instant::now();
            while rdb.is_bgsave_in_progress() { if t0.elapsed() > Duration::from_secs(20) { idle = false; break; } std::thread::sleep(Duration::from_millis(1)); }
            if !started { idle = false; }
            // nothing changed since the later of the two snapshots began: the dump is the dataset
            let probe = StorageEngine::new();
            let ok = matches!(catch_unwind(AssertUnwindSafe(|| rdb.load(&probe))), Ok(Ok(())));
            if !ok || hash_toks(&dump_engine(&probe, true).0) != hash_toks(&dump_engine(&eng, true).0) { loads = false; }
            if self.dir.join("dump.tmp").exists() { loads = false; }
        }
        for k in 0..192 { let _ = eng.delete(14, format!("race-{}", k).as_bytes()); }
        let _ = eng.delete(14, b"race-round");
        match before { Some(b) => { let _ = std::fs::write(self.file(), b); } None => { let _ = std::fs::remove_file(self.file()); } }
        vec![i(fg_ok as i64), i(idle as i64), i(loads as i64)]
    }

    /// C10 (2): saves racing with a writer that flips one key between ("old", no TTL) and
    /// ("new", TTL): a loaded snapshot holding ("old", TTL) or ("new", no TTL) is a pair the key
    /// never had (value read by storage.get, TTL by a later storage.ttl)
    fn tearstress(&mut self, iters: usize) -> (usize, usize, usize, usize) {
        use std::sync::atomic::{AtomicBool, Ordering};
        let eng = self.eng.clone();
        let rdb = RdbEngine::new(RdbConfig { filename: "tear.rdb".into(), dir: self.dir.to_string_lossy().to_string(), ..Default::default() });
        let probe = StorageEngine::new();
        let stop = Arc::new(AtomicBool::new(false));
        let (e2, s2) = (eng.clone(), stop.clone());
        let _ = eng.set_string(15, b"tear-k".to_vec(), b"old".to_vec());
        let _ = eng.zadd(15, b"tear-z".to_vec(), b"m1".to_vec(), 1.0);
        // a sorted set whose member m2 exists only while its time to live is the SHORT one: a snapshot
        // holding m2 beside the long one paired members and a TTL the key never had together (the set is
        // shared with the save through an Arc: its members used to be read later than its TTL, ec066f0)
        let _ = eng.zadd(15, b"tear-y".to_vec(), b"m1".to_vec(), 1.0);
        let _ = eng.expire(15, b"tear-y", Duration::from_secs(200_000));
        let h = std::thread::spawn(move || {
            while !s2.load(Ordering::Relaxed) {
                let _ = e2.expire(15, b"tear-y", Duration::from_secs(100_000));
                let _ = e2.zadd(15, b"tear-y".to_vec(), b"m2".to_vec(), 2.0);
                let _ = e2.zrem(15, b"tear-y", b"m2");
                let _ = e2.expire(15, b"tear-y", Duration::from_secs(200_000));
                let _ = e2.set_string(15, b"tear-k".to_vec(), b"old".to_vec());
                let _ = e2.zadd(15, b"tear-z".to_vec(), b"m2".to_vec(), 2.0);
                let _ = e2.set_string_ex(15, b"tear-k".to_vec(), b"new".to_vec(), Duration::from_secs(100_000));
                let _ = e2.zrem(15, b"tear-z", b"m2");
            }
        });
        let (mut torn, mut runs, mut torn_z, mut torn_zt) = (0, 0, 0, 0);
        for _ in 0..iters {
            if rdb.save(&eng).is_err() { continue; }
            for d in 0..16 { let _ = probe.flush_db(d); }
            // the sorted set is shared with the save thread (Arc): its count is written before its
            // items are read; when they disagree the file does not parse as written
            let loaded = catch_unwind(AssertUnwindSafe(|| rdb.load(&probe)));
            let zbad = match probe.zrange(15, b"tear-z", 0, -1, false) {
                Ok(items) => items.iter().any(|(m, _)| m != b"m1" && m != b"m2"),
                Err(_) => true,
            };
            if !matches!(loaded, Ok(Ok(()))) || zbad { torn_z += 1; continue; }
            runs += 1;
            let v = probe.get_string(15, b"tear-k").ok().flatten();
            let ttl = probe.ttl(15, b"tear-k").ok().flatten();
            match (v.as_deref(), ttl.is_some()) { (Some(b"old"), true) | (Some(b"new"), false) => torn += 1, _ => {} }
            let has_m2 = probe.zrange(15, b"tear-y", 0, -1, false).map(|it| it.iter().any(|(m, _)| m == b"m2")).unwrap_or(false);
            let long = matches!(probe.ttl(15, b"tear-y"), Ok(Some(d)) if d > Duration::from_secs(150_000));
            if has_m2 && long { torn_zt += 1; }
        }
        stop.store(true, Ordering::Relaxed); let _ = h.join();
        let _ = eng.delete(15, b"tear-k"); let _ = eng.delete(15, b"tear-z"); let _ = eng.delete(15, b"tear-y");
        let _ = std::fs::remove_file(self.dir.join("tear.rdb"));
        (torn, runs, torn_z, torn_zt)
    }

    /// one op: (rewritten op, output)
    pub fn op(&mut self, prop: &str, op: &[Tok]) -> (Vec<Tok>, Vec<Tok>) {
        let name = tok_bytes(&op[0]).to_vec();
        let mut nop = op.to_vec();
        let t = self.t();
        nop[1] = Tok::I(t);
        let okt = |r: bool| vec![i(if r { 1 } else { 0 })];
        let eng = self.eng.clone();
        let strs = |from: usize| -> Vec<Vec<u8>> { op[from..].iter().map(|x| tok_bytes(x).to_vec()).collect() };
        let out = match &name[..] {
            b"SET" => {
                let (db, k, v, ttl) = (tok_int(&op[2]) as usize, tok_bytes(&op[3]).to_vec(), tok_bytes(&op[4]).to_vec(), tok_int(&op[5]));
                okt(if ttl < 0 { eng.set_string(db, k, v).is_ok() } else { eng.set_string_ex(db, k, v, Duration::from_millis(ttl as u64)).is_ok() })
            }
            b"RPUSH" => okt(eng.rpush(tok_int(&op[2]) as usize, tok_bytes(&op[3]).to_vec(), strs(4)).is_ok()),
            b"SADD" => okt(eng.sadd(tok_int(&op[2]) as usize, tok_bytes(&op[3]).to_vec(), strs(4)).is_ok()),
            b"HSET" => { let s = strs(4); okt(eng.hset(tok_int(&op[2]) as usize, tok_bytes(&op[3]).to_vec(), s.chunks(2).filter(|c| c.len() == 2).map(|c| (c[0].clone(), c[1].clone())).collect()).is_ok()) }
            b"ZADD" => okt(eng.zadd(tok_int(&op[2]) as usize, tok_bytes(&op[3]).to_vec(), tok_bytes(&op[4]).to_vec(), f64::from_bits(tok_int(&op[5]) as u64)).is_ok()),
            b"XADD" => {
                let s = strs(6); let mut f = HashMap::new();
                for c in s.chunks(2) { if c.len() == 2 { f.insert(c[0].clone(), c[1].clone()); } }
                okt(eng.xadd_with_id(tok_int(&op[2]) as usize, tok_bytes(&op[3]).to_vec(), StreamId::new(tok_int(&op[4]) as u64, tok_int(&op[5]) as u64), f).is_ok())
            }
            b"XDEL" => okt(eng.xdel(tok_int(&op[2]) as usize, tok_bytes(&op[3]), vec![StreamId::new(tok_int(&op[4]) as u64, tok_int(&op[5]) as u64)]).is_ok()),
            b"EXPIRE" => match eng.expire(tok_int(&op[2]) as usize, tok_bytes(&op[3]), Duration::from_millis(tok_int(&op[4]) as u64)) { Ok(true) => vec![i(1)], Ok(false) => vec![i(0)], Err(_) => vec![i(-1)] },
            b"DUMP" => {
                let (toks, ttls) = dump_engine(&eng, false);
                nop.truncate(2);
                nop.push(Tok::I(self.slack())); nop.push(i(ttls.len() as i64));
                for x in ttls { nop.push(Tok::I(x)); }
                toks
            }
            b"ISAVE" => {
                let w = wall_ms();
                let rdb = self.rdb();
                let _ = std::fs::remove_file(self.dir.join("dump.tmp"));
                let r = catch_unwind(AssertUnwindSafe(|| rdb.save(&eng)));
                let st = match r { Ok(Ok(())) => 0, Ok(Err(_)) => 1, Err(_) => 2 };
                let bytes = if st == 0 { std::fs::read(self.file()).unwrap_or_default() } else { vec![] };
                nop.truncate(2);
                nop.push(Tok::I(w)); nop.push(i(self.chk as i64)); nop.push(bv(&bytes));
                vec![i(st), i(1)]
            }
            b"MSAVE" => {
                // op[2] = simulated downtime in ms: the file is written as of (now - downtime)
                let down = tok_int(&op[2]);
                let w = wall_ms() - down;
                nop.truncate(3); nop.push(Tok::I(w));     // [MSAVE t downtime wall]: replayable as is
                let mut hist = self.done_ops.clone();
                hist.push(vec![b("MBYTES"), Tok::I(t), Tok::I(w)]);
                match model_bytes(prop, &hist) {
                    Some(bytes) => { std::fs::write(self.file(), &bytes).unwrap(); vec![i(bytes.len() as i64)] }
                    None => vec![b("NODRIVER")],
                }
            }
            b"PUTFILE" => { let bytes = tok_bytes(&op[2]); std::fs::write(self.file(), bytes).unwrap(); vec![i(bytes.len() as i64)] }
            b"RELOAD" => {
                self.eng = StorageEngine::new();
                let w = wall_ms();
                nop.truncate(2); nop.push(Tok::I(w)); nop.push(i(self.chk as i64));
                let (st, _) = self.load_current();
                vec![i(st)]
            }
            b"SWEEP" => {
                let w = wall_ms();
                let k = tok_int(&op[4]) as usize;
                let abs: Vec<u8> = op[5..5 + k].iter().map(|x| tok_int(x) as u8).collect();
                let xors: Vec<u8> = op[6 + k..].iter().map(|x| tok_int(x) as u8).collect();
                nop[2] = Tok::I(w); nop[3] = i(self.chk as i64);
                let orig = std::fs::read(self.file()).unwrap_or_default();
                let mut outs: Vec<Tok> = vec![];
                let mut n = 0i64;
                let mut one = |me: &mut Env, bytes: &[u8]| {
                    me.clear_engine();
                    std::fs::write(me.file(), bytes).unwrap();
                    let (st, m) = me.load_current();
                    let big = if m > 64 * bytes.len() + 1048576 { 4 } else { 0 };
                    let (toks, _) = dump_engine(&me.eng, true);
                    outs.push(Tok::I(st + big)); outs.push(Tok::I(hash_toks(&toks)));
                    n += 1;
                };
                for p in 0..orig.len() { one(self, &orig[..p]); }
                let mut cur = orig.clone();
                for p in 0..orig.len() {
                    let c = orig[p];
                    for v in abs.iter().cloned().chain(xors.iter().map(|x| c ^ x)) {
                        if v == c { continue; }
                        cur[p] = v; one(self, &cur);
                    }
                    cur[p] = c;
                }
                std::fs::write(self.file(), &orig).unwrap();
                self.clear_engine();
                let mut o = vec![Tok::I(n as i128)]; o.extend(outs); o
            }
            b"BLOCKSAVE" => {
                // the temporary path is a directory: OpenOptions::open fails, save returns Err
                let before = std::fs::read(self.file()).ok();
                let tmp = self.dir.join("dump.tmp");
                let _ = std::fs::remove_file(&tmp);
                std::fs::create_dir_all(&tmp).unwrap();
                let rdb = self.rdb();
                let r = catch_unwind(AssertUnwindSafe(|| rdb.save(&eng)));
                let st = match r { Ok(Ok(())) => 0, Ok(Err(_)) => 1, Err(_) => 2 };
                let _ = std::fs::remove_dir_all(&tmp);
                let after = std::fs::read(self.file()).ok();
                vec![i(st), i((before == after) as i64)]
            }
            b"FAILSWEEP" => {
                let w = wall_ms();
                nop.truncate(2); nop.push(Tok::I(w));
                self.failsweep()
            }
            b"BGSWEEP" => {
                let w = wall_ms();
                nop.truncate(2); nop.push(Tok::I(w));
                self.bgsweep()
            }
            b"SAVERACE" => self.saverace(),
            b"STALETMP" => {
                // a process that died inside a save left its temporary file behind: the next save still
                // works, publishes the dataset and leaves no temporary file (the dump is put back afterwards)
                let before = std::fs::read(self.file()).ok();
                let tmp = self.dir.join("dump.tmp");
                let _ = std::fs::write(&tmp, b"REDIS0009\xfa\x09leftover of a save that never finished");
                let rdb = self.rdb();
                let ok = matches!(catch_unwind(AssertUnwindSafe(|| rdb.save(&eng))), Ok(Ok(())));
                let probe = StorageEngine::new();
                let loaded = ok && matches!(catch_unwind(AssertUnwindSafe(|| rdb.load(&probe))), Ok(Ok(())));
                let same = loaded && hash_toks(&dump_engine(&probe, true).0) == hash_toks(&dump_engine(&eng, true).0);
                let gone = !tmp.exists();
                let _ = std::fs::remove_file(&tmp);
                match before { Some(b) => { let _ = std::fs::write(self.file(), b); } None => { let _ = std::fs::remove_file(self.file()); } }
                vec![i(ok as i64), i((same && gone) as i64)]
            }
            b"TEARSTRESS" => {
                // op[2] = number of saves; the observation (torn snapshots, saves) goes into the op:
                // it depends on the schedule and is judged, not compared
                let iters = tok_int(&op[2]) as usize;
                let (torn, runs, torn_z, torn_zt) = self.tearstress(iters);
                nop.truncate(3); nop.push(Tok::I(torn as i128)); nop.push(Tok::I(runs as i128)); nop.push(Tok::I(torn_z as i128)); nop.push(Tok::I(torn_zt as i128));
                vec![i(1)]
            }
            b"PROBE" => {
                let w = wall_ms();
                nop.truncate(2); nop.push(Tok::I(w)); nop.push(i(self.chk as i64));
                self.clear_engine();
                let len = std::fs::metadata(self.file()).map(|m| m.len() as usize).unwrap_or(0);
                let (st, m) = self.load_current();
                let big = if m > 64 * len + 1048576 { 4 } else { 0 };
                let (toks, _) = dump_engine(&self.eng, true);
                vec![Tok::I(st + big), Tok::I(hash_toks(&toks))]
            }
            b"SLEEP" => { let d = Duration::from_millis(tok_int(&op[2]) as u64); std::thread::sleep(d); self.slept += d; vec![] }
            _ => vec![b("BADOP")],
        };
        self.done_ops.push(nop.clone());
        (nop, out)
    }
    pub fn finish(self) { let _ = std::fs::remove_dir_all(&self.dir); }
}

pub fn run_prop(prop: &str, c: &Case) -> Case {
    let mut e = Env::new();
    let mut out = Case { id: c.id.clone(), ops: vec![], outs: vec![] };
    for op in &c.ops { let (o2, res) = e.op(prop, op); out.ops.push(o2); out.outs.push(res); }
    e.finish();
    out
}
pub fn run(c: &Case) -> Case { run_prop("C09", c) }

// ---------------------------------------------------------------- generator
pub const SCORES: &[u64] = &[0, 0x8000000000000000, 0x3ff0000000000000, 0xbff0000000000000, 0x7ff0000000000000,
    0xfff0000000000000, 0x7ff8000000000000, 0xfff8000000000001, 1, 0x4340000000000000, 0x4340000000000001, 0x3fb999999999999a,
    0x7fefffffffffffff, 0x400921fb54442d18, 0x0010000000000000, 0x4000000000000000, 0x4000000000000000];

pub fn blob(r: &mut Rng, n: usize) -> Vec<u8> {
    let mode = r.below(3);
    (0..n).map(|k| match mode { 0 => b'a' + (k % 26) as u8, 1 => r.below(256) as u8, _ => *r.pick(b"ab\x00\xff\r\n-0123456789") }).collect()
}
fn small(r: &mut Rng) -> Vec<u8> {
    match r.below(12) {
        0 => vec![], 1 => MARKER.to_vec(), 2 => b"0-0".to_vec(), 3 => b"1".to_vec(), 4 => vec![0xff, 0xfe, 0x00],
        5 => { let mut m = MARKER.to_vec(); m.push(b'x'); m }
        _ => { let n = r.below(9) as usize; blob(r, n) }
    }
}
pub fn boundary(r: &mut Rng, thorough: bool) -> usize {
    let b: &[usize] = if thorough { &[0, 1, 63, 64, 65, 16383, 16384, 65535, 65536, 70000] } else { &[0, 1, 63, 64, 65, 16383, 16384] };
    *r.pick(b)
}
fn key_pool(r: &mut Rng) -> Vec<Vec<u8>> {
    let mut p: Vec<Vec<u8>> = vec![b"k".to_vec(), b"key:2".to_vec(), vec![], MARKER.to_vec(), vec![0, 255, 10, 13], b"s".to_vec(), b"z".to_vec(), b"h".to_vec()];
    if r.chance(1, 3) { p.push(blob(r, 64)); }
    if r.chance(1, 6) { p.push(blob(r, 16384)); }
    p
}
fn op_t(name: &str) -> Vec<Tok> { vec![b(name), i(0)] }
fn distinct(r: &mut Rng, n: usize) -> Vec<Vec<u8>> {
    // n distinct short members
    (0..n).map(|k| { let mut v = format!("{}", k).into_bytes(); if r.chance(1, 8) { v.push(0xff); } v }).collect()
}

/// build ops for one value of the given type under [key]
fn gen_value(r: &mut Rng, ops: &mut Vec<Vec<Tok>>, db: i64, key: &[u8], ty: u64, n: usize, ttl: i128) {
    let push = |ops: &mut Vec<Vec<Tok>>, name: &str, rest: Vec<Tok>| { let mut o = op_t(name); o.push(i(db)); o.push(bv(key)); o.extend(rest); ops.push(o); };
    match ty {
        0 => { let v = blob(r, n); push(ops, "SET", vec![bv(&v), Tok::I(ttl)]); return; }
        1 => {
            let mut els: Vec<Vec<u8>> = if n > 200 { distinct(r, n) } else { (0..n.max(1)).map(|_| small(r)).collect() };
            // lists that start with the stream marker are ordinary citizens since 6aaeb35
            if r.chance(1, 12) { els[0] = MARKER.to_vec(); }
            for ch in els.chunks(5000) { push(ops, "RPUSH", ch.iter().map(|x| bv(x)).collect()); }
        }
        2 => {
            let els: Vec<Vec<u8>> = if n > 200 { distinct(r, n) } else { (0..n.max(1)).map(|_| small(r)).collect() };
            for ch in els.chunks(5000) { push(ops, "SADD", ch.iter().map(|x| bv(x)).collect()); }
        }
        3 => {
            let fs: Vec<Vec<u8>> = if n > 200 { distinct(r, n) } else { (0..n.max(1)).map(|_| small(r)).collect() };
            for ch in fs.chunks(2500) { let mut a = vec![]; for f in ch { a.push(bv(f)); a.push(bv(&small(r))); } push(ops, "HSET", a); }
        }
        4 => {
            // members distinct: re-scoring a member whose score is NaN duplicates its node (a C04 defect)
            let mut ms: Vec<Vec<u8>> = if n > 200 { distinct(r, n) } else { (0..n.max(1)).map(|_| small(r)).collect() };
            let mut seen = std::collections::HashSet::new(); ms.retain(|m| seen.insert(m.clone()));
            while ms.len() < n.max(1) { ms.push(format!("m{}", ms.len()).into_bytes()); }
            for (k, m) in ms.iter().enumerate() {
                let bits = if n > 200 { (0x4000000000000000u64).wrapping_add(((k * 7919) % 1000) as u64 * 0x10000000000) } else { *r.pick(SCORES) };
                push(ops, "ZADD", vec![bv(m), Tok::I(bits as i128)]);
            }
        }
        _ => {
            let mut ms = r.below(3) as u64; let mut sq = 1 + r.below(3) as u64;
            for _ in 0..n.max(1) {
                let nf = if n > 50 { 1 } else { r.below(4) as usize };     // 0 fields: storage API only (31c6d8d)
                let mut a = vec![Tok::I(ms as i128), Tok::I(sq as i128)];
                for f in 0..nf { let fname = if r.chance(1, 4) { small(r) } else { format!("f{}", f).into_bytes() }; a.push(bv(&fname)); a.push(bv(&small(r))); }
                push(ops, "XADD", a);
                match r.below(4) { 0 => { ms += 1 + r.below(1000); sq = r.below(3); } 1 => { sq += 1 + r.below(5); } 2 => { ms = ms.saturating_add(r.next() >> 20); sq = 0; } _ => { sq += 1; } }
            }
        }
    }
    if ttl >= 0 { let mut o = op_t("EXPIRE"); o.push(i(db)); o.push(bv(key)); o.push(Tok::I(ttl)); ops.push(o); }
}

fn gen_ttl(r: &mut Rng, down: i128) -> i128 {
    match r.below(10) {
        0..=3 => -1,
        4 => 100_000 + r.below(1000) as i128,
        5 => 1_000_000_007,
        6 => down + 60_000 + r.below(100000) as i128,         // longer than the downtime
        7 => if down > 10_000 { 5_000 + r.below((down - 8_000) as u64) as i128 } else { 200_000 },   // shorter than the downtime
        8 => 9_000_000_000_000_000,                              // ~285 000 years
        _ => 3_600_000,
    }
}

fn tail(ops: &mut Vec<Vec<Tok>>, down: i128) {
    ops.push(op_t("DUMP"));
    ops.push(op_t("ISAVE"));
    ops.push(op_t("RELOAD"));
    ops.push(op_t("DUMP"));
    let mut m = op_t("MSAVE"); m.push(Tok::I(down)); ops.push(m);
    ops.push(op_t("RELOAD"));
    ops.push(op_t("DUMP"));
}

pub fn gen(seed: u64, n: usize, tier: &str) -> Vec<Case> {
    let thorough = tier == "thorough";
    let mut r = Rng::new(seed);
    let mut cases = vec![];
    let mut id = 0usize;
    let mut add = |tag: &str, ops: Vec<Vec<Tok>>, id: &mut usize| { cases.push(Case { id: format!("{}-{}", tag, *id), ops, outs: vec![] }); *id += 1; };
    // (a) one boundary-sized value of each type, with and without TTL.  The executable model is
    // list-based (quadratic set/hash/zset insertion, per-key fuel = remaining file length): the 2^14
    // boundary of set/hash counts runs in the thorough tier; zset counts and key counts stop at 4096.
    for ty in 0..6u64 {
        let sizes: Vec<usize> = match (ty, thorough) {
            (0, _) => vec![0, 1, 63, 64, 16383, 16384],
            (1, false) => vec![1, 63, 64, 16383, 16384],
            (1, true) => vec![1, 63, 64, 16383, 16384, 65536, 70000],
            (5, false) => vec![1, 63, 64, 4095, 4096],
            (5, true) => vec![1, 63, 64, 4095, 4096, 4500],
            (4, true) => vec![1, 63, 64, 300, 4096],
            (_, false) => vec![1, 63, 64, 300],
            (_, true) => vec![1, 63, 64, 300, 16383, 16384],
        };
        for sz in sizes {
            let mut ops = vec![];
            let down = if r.chance(1, 2) { 0 } else { 50_000 };
            let ttl = if r.chance(1, 2) { -1 } else { 400_000 };
            let dbi = *r.pick(&[0i64, 3, 15]);
            gen_value(&mut r, &mut ops, dbi, b"big", ty, sz, ttl);
            tail(&mut ops, down);
            add(&format!("size-t{}-n{}", ty, sz), ops, &mut id);
        }
    }
    // a 65536-byte string and a 65536-byte key even in the quick tier (cheap)
    {
        let mut ops = vec![];
        let k = blob(&mut r, 65536); let v = blob(&mut r, 65536);
        let mut o = op_t("SET"); o.push(i(0)); o.push(bv(&k)); o.push(bv(&v)); o.push(Tok::I(777_000)); ops.push(o);
        let mut o = op_t("RPUSH"); o.push(i(1)); o.push(bv(b"l")); o.push(bv(&blob(&mut r, 70000))); o.push(bv(b"")); o.push(bv(MARKER)); ops.push(o);
        tail(&mut ops, 1000);
        add("size-64k", ops, &mut id);
    }
    // (b) number of keys around the length-encoding boundary (resize hint, 14-bit form)
    let kcounts: &[usize] = if thorough { &[63, 64, 65, 300, 4096] } else { &[63, 64, 65, 300] };
    for &nk in kcounts {
        let mut ops = vec![];
        for k in 0..nk { let mut o = op_t("SET"); o.push(i(2)); o.push(bv(format!("key{}", k).as_bytes())); o.push(bv(&small(&mut r))); o.push(Tok::I(if k % 7 == 0 { 500_000 + k as i128 } else { -1 })); ops.push(o); }
        tail(&mut ops, 20_000);
        add(&format!("keys-{}", nk), ops, &mut id);
    }
    // (c) random mixed datasets over several databases, colliding key pool, all types, TTLs
    while id < n {
        let mut ops = vec![];
        let pool = key_pool(&mut r);
        let down: i128 = *r.pick(&[0i128, 0, 30_000, 3_600_000, 86_400_000]);
        let nk = 1 + r.below(14);
        for _ in 0..nk {
            let db = *r.pick(&[0i64, 0, 1, 2, 7, 15, 15, 16]);
            let key = r.pick(&pool).clone();
            let ty = r.below(6);
            let sz = match r.below(10) { 0 => boundary(&mut r, false).min(if ty == 0 { 16384 } else { 65 }), 1..=6 => 1 + r.below(6) as usize, _ => r.below(40) as usize };
            let ttl = gen_ttl(&mut r, down);
            gen_value(&mut r, &mut ops, db, &key, ty, sz, ttl);
            if r.chance(1, 10) {
                // a stream emptied again (the key stays, 1a77fe9)
                let sk = r.pick(&pool).clone();
                let mut o = op_t("XADD"); o.push(i(db)); o.push(bv(&sk)); o.push(i(1)); o.push(i(1)); o.push(bv(b"f")); o.push(bv(b"v")); ops.push(o);
                let mut o = op_t("XDEL"); o.push(i(db)); o.push(bv(&sk)); o.push(i(1)); o.push(i(1)); ops.push(o);
            }
            if r.chance(1, 10) {
                // a sorted-set member re-scored, an element repeated in a set, a hash field overwritten
                for sc in [0x3ff0000000000000u64, *r.pick(SCORES)] { let mut o = op_t("ZADD"); o.push(i(db)); o.push(bv(&key)); o.push(bv(b"rescored")); o.push(Tok::I(sc as i128)); ops.push(o); }
            }
        }
        tail(&mut ops, down);
        add("mix", ops, &mut id);
    }
    // (d) real downtime: a key that is alive at the save and past its deadline at the load
    for v in 0..2 {
        let mut ops = vec![];
        let mut o = op_t("SET"); o.push(i(0)); o.push(bv(b"short")); o.push(bv(b"v")); o.push(Tok::I(1500)); ops.push(o);
        let mut o = op_t("SET"); o.push(i(0)); o.push(bv(b"long")); o.push(bv(b"v")); o.push(Tok::I(60_000)); ops.push(o);
        let mut o = op_t("RPUSH"); o.push(i(v)); o.push(bv(b"sl")); o.push(bv(b"a")); ops.push(o);
        let mut o = op_t("EXPIRE"); o.push(i(v)); o.push(bv(b"sl")); o.push(Tok::I(1500)); ops.push(o);
        ops.push(op_t("DUMP")); ops.push(op_t("ISAVE"));
        let mut s = op_t("SLEEP"); s.push(i(1700)); ops.push(s);
        ops.push(op_t("RELOAD")); ops.push(op_t("DUMP"));
        add("downtime", ops, &mut id);
    }
    // a key already past its deadline at the save (not yet swept): skipped by the writer, absent afterwards
    {
        let mut ops = vec![];
        let mut o = op_t("SET"); o.push(i(0)); o.push(bv(b"gone")); o.push(bv(b"v")); o.push(Tok::I(30)); ops.push(o);
        let mut o = op_t("SADD"); o.push(i(1)); o.push(bv(b"gone-set")); o.push(bv(b"m")); ops.push(o);
        let mut o = op_t("EXPIRE"); o.push(i(1)); o.push(bv(b"gone-set")); o.push(Tok::I(30)); ops.push(o);
        let mut o = op_t("SET"); o.push(i(0)); o.push(bv(b"stays")); o.push(bv(b"v")); o.push(Tok::I(90_000)); ops.push(o);
        let mut s = op_t("SLEEP"); s.push(i(80)); ops.push(s);
        ops.push(op_t("ISAVE")); ops.push(op_t("RELOAD")); ops.push(op_t("DUMP"));
        let mut m = op_t("MSAVE"); m.push(Tok::I(1000)); ops.push(m);
        ops.push(op_t("RELOAD")); ops.push(op_t("DUMP"));
        add("expired-before-save", ops, &mut id);
    }
    // (e) regression cases of the repaired classes marker-collision (6aaeb35), empty-stream-lost
    // (1a77fe9), stream-entry-without-fields (31c6d8d)
    {
        let mut ops = vec![];
        let mut o = op_t("RPUSH"); o.push(i(0)); o.push(bv(b"l")); o.push(bv(MARKER)); o.push(bv(b"x")); ops.push(o);
        let mut o = op_t("RPUSH"); o.push(i(0)); o.push(bv(b"l2")); o.push(bv(MARKER)); o.push(bv(b"1-1")); o.push(bv(b"1")); o.push(bv(b"f")); o.push(bv(b"v")); ops.push(o);
        tail(&mut ops, 0);
        add("regress-marker", ops, &mut id);
        let mut ops = vec![];
        let mut o = op_t("XADD"); o.push(i(0)); o.push(bv(b"st")); o.push(i(5)); o.push(i(1)); o.push(bv(b"f")); o.push(bv(b"v")); ops.push(o);
        let mut o = op_t("XDEL"); o.push(i(0)); o.push(bv(b"st")); o.push(i(5)); o.push(i(1)); ops.push(o);
        tail(&mut ops, 0);
        add("regress-emptystream", ops, &mut id);
        let mut ops = vec![];
        let mut o = op_t("XADD"); o.push(i(0)); o.push(bv(b"st")); o.push(i(5)); o.push(i(1)); o.push(bv(b"f")); o.push(bv(b"v")); ops.push(o);
        let mut o = op_t("XADD"); o.push(i(0)); o.push(bv(b"st")); o.push(i(6)); o.push(i(0)); ops.push(o);   // an entry without fields, last
        let mut o = op_t("SET"); o.push(i(0)); o.push(bv(b"zz")); o.push(bv(b"after")); o.push(i(-1)); ops.push(o);
        tail(&mut ops, 0);
        add("regress-nofields", ops, &mut id);
    }
    cases
}

// ---------------------------------------------------------------- property oracle on the implementation's outputs
#[derive(Clone, Debug, PartialEq)]
struct KeyRow { db: i128, key: Vec<u8>, ttl: i128, val: Vec<Tok> }

fn parse_dump(t: &[Tok]) -> Option<Vec<KeyRow>> {
    let mut rows = vec![]; let mut p = 0;
    let int = |p: &mut usize| -> Option<i128> { match t.get(*p)? { Tok::I(z) => { *p += 1; Some(*z) } _ => None } };
    let byt = |p: &mut usize| -> Option<Vec<u8>> { match t.get(*p)? { Tok::B(z) => { *p += 1; Some(z.clone()) } _ => None } };
    while p < t.len() {
        let db = int(&mut p)?; let nk = int(&mut p)?;
        for _ in 0..nk {
            let key = byt(&mut p)?; let ttl = int(&mut p)?;
            let start = p;
            let ty = int(&mut p)?;
            match ty {
                0 => { byt(&mut p)?; }
                1 | 2 => { let n = int(&mut p)?; for _ in 0..n { byt(&mut p)?; } }
                3 => { let n = int(&mut p)?; for _ in 0..2 * n { byt(&mut p)?; } }
                4 => { let n = int(&mut p)?; for _ in 0..n { byt(&mut p)?; int(&mut p)?; } }
                5 => { let n = int(&mut p)?; for _ in 0..n { int(&mut p)?; int(&mut p)?; let nf = int(&mut p)?; for _ in 0..2 * nf { byt(&mut p)?; } } }
                _ => return None,
            }
            rows.push(KeyRow { db, key, ttl, val: t[start..p].to_vec() });
        }
    }
    Some(rows)
}

fn class_of(_before: &KeyRow) -> Option<&'static str> {
    // every class this oracle used to recognise by the shape of the dataset (marker head, empty
    // stream, entry without fields, NaN duplicate) has been repaired in /repo
    None
}

/// C09 on the implementation alone: the dump after (save, restart) equals the dump before,
/// TTLs reduced by the downtime; keys whose deadline passed are absent.
pub fn judge(c: &Case, outs: &[Vec<Tok>]) -> Vec<String> {
    let fails = judge_raw(c, outs);
    // a dataset holding a value of a known class mis-parses as a whole: every failure of such a
    // case is attributed to that class
    let mut case_class: Option<&'static str> = None;
    for (k, op) in c.ops.iter().enumerate() {
        if tok_bytes(&op[0]) == b"DUMP" { if let Some(rows) = outs.get(k).and_then(|o| parse_dump(o)) { for r in &rows { if let Some(cl) = class_of(r) { case_class = Some(cl); } } } }
    }
    fails.into_iter().map(|l| if l.contains("class=") { l } else { match case_class { Some(cl) => l.replacen(" op=", &format!(" class={} op=", cl), 1), None => l } }).collect()
}
fn judge_raw(c: &Case, outs: &[Vec<Tok>]) -> Vec<String> {
    let mut fails = vec![];
    let mut last_dump: Option<(usize, Vec<KeyRow>)> = None;
    let mut pending: Option<(i128, i128)> = None;   // (downtime, slack) since the last save
    let mut slept: i128 = 0;
    for (k, op) in c.ops.iter().enumerate() {
        let name = tok_bytes(&op[0]);
        let out = match outs.get(k) { Some(o) => o, None => break };
        match name {
            b"ISAVE" => { if out.first() != Some(&i(0)) { fails.push(format!("FAIL case={} op={} save did not succeed ({:?})", c.id, k, out.first())); } pending = Some((0, 0)); slept = 0; }
            b"MSAVE" => { pending = Some((-1, 0)); slept = 0; }
            b"SLEEP" => { slept += tok_int(&op[2]); }
            b"RELOAD" => { if out.first() != Some(&i(0)) { fails.push(format!("FAIL case={} op={} load of a dump just written failed ({:?})", c.id, k, out.first())); } }
            b"DUMP" => {
                let rows = match parse_dump(out) { Some(r) => r, None => { fails.push(format!("FAIL case={} op={} unparsable dump", c.id, k)); continue; } };
                let slack = tok_int(&op[2]);
                if let (Some((kb, before)), Some((down0, _))) = (&last_dump, pending) {
                    // downtime of an MSAVE is carried by the generator op; find it
                    let down = if down0 >= 0 { slept } else { msave_down(c, k) };
                    let _ = kb;
                    for b in before {
                        let after = rows.iter().find(|r| r.db == b.db && r.key == b.key);
                        let cls = class_of(b).map(|c| format!(" class={}", c)).unwrap_or_default();
                        let must_be_gone = b.ttl >= 0 && b.ttl + slack < down;
                        let must_stay = b.ttl < 0 || b.ttl - slack > down + 2;
                        match after {
                            None => if must_stay { fails.push(format!("FAIL case={} op={}{} key {:?} of db {} lost by save+restart", c.id, k, cls, String::from_utf8_lossy(&b.key), b.db)); }
                            Some(a) => {
                                if must_be_gone {
                                    let cl = if a.ttl < 0 { " class=expired-reloaded-immortal" } else { "" };
                                    fails.push(format!("FAIL case={} op={}{} key {:?} of db {} whose deadline passed {} ms before the restart is present (ttl {})", c.id, k, cl, String::from_utf8_lossy(&b.key), b.db, down - b.ttl, a.ttl));
                                } else if must_stay {
                                    if a.val != b.val { fails.push(format!("FAIL case={} op={}{} value of key {:?} of db {} changed by save+restart", c.id, k, cls, String::from_utf8_lossy(&b.key), b.db)); }
                                    let want = if b.ttl < 0 { -1 } else { b.ttl - down };
                                    if (b.ttl < 0) != (a.ttl < 0) || (want - a.ttl).abs() > slack + 3 {
                                        fails.push(format!("FAIL case={} op={}{} ttl of key {:?} of db {}: before {} downtime {} after {}", c.id, k, cls, String::from_utf8_lossy(&b.key), b.db, b.ttl, down, a.ttl));
                                    }
                                }
                            }
                        }
                    }
                    for a in &rows {
                        if !before.iter().any(|b| b.db == a.db && b.key == a.key) {
                            let cls = if before.iter().any(|b| class_of(b).is_some()) { " class=stream-entry-without-fields" } else { "" };
                            fails.push(format!("FAIL case={} op={}{} key {:?} of db {} appeared from nowhere", c.id, k, cls, String::from_utf8_lossy(&a.key), a.db));
                        }
                    }
                }
                last_dump = Some((k, rows)); pending = None;
            }
            _ => {}
        }
    }
    fails
}

/// downtime simulated by the last MSAVE before op k: the wall clock read by the RELOAD that
/// follows it minus the wall clock written into the file ([MSAVE t wall_written]).
fn msave_down(c: &Case, k: usize) -> i128 {
    let mut res = 0; let mut w = None;
    for op in &c.ops[..k] {
        match tok_bytes(&op[0]) { b"MSAVE" => w = Some(tok_int(&op[3])), b"RELOAD" => if let Some(x) = w { res = tok_int(&op[2]) - x; }, _ => {} }
    }
    res
}
