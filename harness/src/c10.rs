//! C10: crash points of a save (needs patches/hook-rdb-failat.diff; until it is applied only
//! the reachable part runs) and damaged input: every prefix and single-byte corruption of
//! valid dumps, loaded in-process under catch_unwind with the counting allocator.
use crate::c09;
use crate::rng::Rng;
use crate::tok::*;

fn op_t(name: &str) -> Vec<Tok> { vec![b(name), i(0)] }

pub fn run(c: &Case) -> Case { c09::run_prop("C10", c) }

pub fn gen(seed: u64, n: usize, tier: &str) -> Vec<Case> {
    let _ = (seed, n, tier);
    vec![]
}

pub fn judge(_c: &Case, _outs: &[Vec<Tok>]) -> Vec<String> { vec![] }
#[allow(dead_code)]
fn _unused(r: &mut Rng) -> Vec<Tok> { let _ = r.next(); op_t("x") }
