//! C10: the dump on disk is always a complete, loadable snapshot.
//! (1) crash points: a save that cannot even open its temporary file leaves the dump untouched
//!     (BLOCKSAVE); every write call of a save fails in turn through the hook
//!     storage::rdb::verif (FAILSWEEP).
//! (3) damaged input: every prefix and single-byte corruption of valid dumps (SWEEP) and crafted
//!     files (PUTFILE + PROBE), loaded in-process under catch_unwind with the counting allocator.
//! The runner and the op vocabulary are shared with C09 (c09.rs, coq/Model/RunRdb.v).
use crate::c09::{self, MARKER};
use crate::rng::Rng;
use crate::tok::*;

fn op_t(name: &str) -> Vec<Tok> { vec![b(name), i(0)] }
fn opv(name: &str, rest: Vec<Tok>) -> Vec<Tok> { let mut o = op_t(name); o.extend(rest); o }

pub fn run(c: &Case) -> Case { c09::run_prop("C10", c) }

/// a time-to-live that no single-byte change of the 8-byte expiry field can bring within 24 days
/// of "now": 2^33 + 2^31 ms (see design/C10.md)
const FAR: i128 = (1 << 33) + (1 << 31);

fn wl(n: usize) -> Vec<u8> {
    if n <= 63 { vec![n as u8] } else if n <= 16383 { vec![(n / 256 + 64) as u8, (n % 256) as u8] } else { let mut v = vec![0x80]; v.extend((n as u32).to_be_bytes()); v }
}
fn ws(s: &[u8]) -> Vec<u8> { let mut v = wl(s.len()); v.extend(s); v }
fn cat(parts: &[&[u8]]) -> Vec<u8> { parts.iter().flat_map(|p| p.iter().cloned()).collect() }

fn rblob(r: &mut Rng, m: u64) -> Vec<u8> { let n = r.below(m) as usize; c09::blob(r, n) }

fn small_dataset(r: &mut Rng, ops: &mut Vec<Vec<Tok>>, with_past: bool) {
    let dbs = [0i64, 0, 1, 15];
    let kinds = 3 + r.below(5);
    for k in 0..kinds {
        let db = *r.pick(&dbs);
        let key = match r.below(5) { 0 => vec![], 1 => MARKER.to_vec(), 2 => vec![0xff, 0x00], _ => format!("k{}", k).into_bytes() };
        let ttl: i128 = match r.below(4) { 0 => if with_past { 5000 } else { -1 }, 1 => 2 * FAR, _ => -1 };
        let ty = r.below(6);
        match ty {
            0 => { ops.push(opv("SET", vec![i(db), bv(&key), bv(&rblob(r, 12)), Tok::I(ttl)])); continue; }
            1 => { let n = 1 + r.below(4); let mut a = vec![i(db), bv(&key), bv(b"h")]; for _ in 0..n { a.push(bv(&rblob(r, 5))); } ops.push(opv("RPUSH", a)); }
            2 => { let n = 1 + r.below(4); let mut a = vec![i(db), bv(&key)]; for j in 0..n { a.push(bv(format!("m{}", j).as_bytes())); } ops.push(opv("SADD", a)); }
            3 => { let n = 1 + r.below(3); let mut a = vec![i(db), bv(&key)]; for j in 0..n { a.push(bv(format!("f{}", j).as_bytes())); a.push(bv(&rblob(r, 4))); } ops.push(opv("HSET", a)); }
            4 => { let n = 1 + r.below(3); for j in 0..n { ops.push(opv("ZADD", vec![i(db), bv(&key), bv(format!("z{}", j).as_bytes()), Tok::I(*r.pick(c09::SCORES) as i128)])); } }
            _ => { let n = 1 + r.below(3); for j in 0..n { ops.push(opv("XADD", vec![i(db), bv(&key), i(1 + j as i64), i(j as i64), bv(b"f"), bv(&rblob(r, 4))])); } }
        }
        if ttl >= 0 { ops.push(opv("EXPIRE", vec![i(db), bv(&key), Tok::I(ttl)])); }
    }
}

fn sweep_op(r: &mut Rng, thorough: bool, exhaustive: bool) -> Vec<Tok> {
    // absolute replacement values and xor masks applied at every position; [exhaustive]: all 255
    // other values of every byte (the first 16 files of the thorough tier)
    let abs: Vec<i64> = if thorough { vec![0, 255, 128, 252, 253, 254, 250, 251, 1, 5, 64, 192] } else { vec![0, 255, 128, 252, 253, 1, 64, 192] };
    let xors: Vec<i64> = if exhaustive { (1..=255).collect() }
        else if thorough { let mut v = vec![1, 2, 4, 8, 16, 32, 64, 128]; for _ in 0..8 { v.push(1 + r.below(255) as i64); } v }
        else { vec![1, 2, 0x80, 1 + r.below(255) as i64] };
    let mut o = opv("SWEEP", vec![i(0), i(0), i(abs.len() as i64)]);
    for a in abs { o.push(i(a)); }
    o.push(i(xors.len() as i64));
    for x in xors { o.push(i(x)); }
    o
}

pub fn crafted() -> Vec<(&'static str, Vec<u8>)> {
    let hdr: &[u8] = b"REDIS0009";
    let eof: &[u8] = &[0xff, 0, 0, 0, 0, 0, 0, 0, 0];
    let past: [u8; 8] = 1_000_000_000_000u64.to_le_bytes();
    let future: [u8; 8] = 4_000_000_000_000u64.to_le_bytes();
    vec![
        ("empty", vec![]),
        ("magic-only", b"REDIS".to_vec()),
        ("bad-magic", b"REDIX0009\xff\0\0\0\0\0\0\0\0".to_vec()),
        ("bad-version", b"REDIS00x9\xff\0\0\0\0\0\0\0\0".to_vec()),
        ("plus-version", cat(&[b"REDIS+009", eof])),
        ("no-eof", cat(&[hdr, &[0], &ws(b"k"), &ws(b"v")])),
        ("short-checksum", cat(&[hdr, &[0xff, 0, 0]])),
        ("trailing-garbage", cat(&[hdr, &[0], &ws(b"k"), &ws(b"v"), eof, b"garbage"])),
        ("expire-seconds-future", cat(&[hdr, &[0xfd], &4_000_000_000u32.to_le_bytes(), &[0], &ws(b"k"), &ws(b"v"), eof])),
        ("expire-seconds-past", cat(&[hdr, &[0xfd], &1_000_000_000u32.to_le_bytes(), &[2], &ws(b"s"), &wl(1), &ws(b"m"), eof])),
        ("expire-ms-each-type", cat(&[hdr, &[0xfc], &future, &[0], &ws(b"a"), &ws(b"v"), &[0xfc], &future, &[1], &ws(b"b"), &wl(1), &ws(b"x"),
            &[0xfc], &future, &[2], &ws(b"c"), &wl(1), &ws(b"x"), &[0xfc], &future, &[3], &ws(b"d"), &wl(1), &ws(b"x"), &1.5f64.to_le_bytes(),
            &[0xfc], &future, &[4], &ws(b"e"), &wl(1), &ws(b"f"), &ws(b"v"), &[0xfc], &past, &[5], &ws(b"g"), &wl(1), &ws(b"x"), &2.5f64.to_le_bytes(),
            &[0xfc], &future, &[1], &ws(b"st"), &wl(5), &ws(MARKER), &ws(b"7-7"), &ws(b"1"), &ws(b"f"), &ws(b"v"), eof])),
        ("db-16", cat(&[hdr, &[0xfe, 16, 0], &ws(b"k"), &ws(b"v"), eof])),
        ("db-16-stream-no-ttl", cat(&[hdr, &[0xfe, 16, 1], &ws(b"st"), &wl(5), &ws(MARKER), &ws(b"7-7"), &ws(b"1"), &ws(b"f"), &ws(b"v"), &[0xfe, 0, 0], &ws(b"k"), &ws(b"v"), eof])),
        ("db-16-stream-ttl", cat(&[hdr, &[0xfe, 16, 0xfc], &future, &[1], &ws(b"st"), &wl(5), &ws(MARKER), &ws(b"7-7"), &ws(b"1"), &ws(b"f"), &ws(b"v"), eof])),
        ("db-16-empty-zset-ttl", cat(&[hdr, &[0xfe, 16, 0xfc], &future, &[3], &ws(b"z"), &wl(0), eof])),
        ("db-big", cat(&[hdr, &[0xfe, 0x80, 0xff, 0xff, 0xff, 0xff, 0], &ws(b"k"), &ws(b"v"), eof])),
        ("unknown-type", cat(&[hdr, &[9], &ws(b"k"), &ws(b"v"), eof])),
        ("length-form-3", cat(&[hdr, &[0], &[0xc0], b"kv", eof])),
        ("length-32bit-small", cat(&[hdr, &[0], &[0x80, 0, 0, 0, 1], b"k", &[0xbf, 0, 0, 0, 1], b"v", eof])),
        ("dup-key-wrongtype", cat(&[hdr, &[0], &ws(b"k"), &ws(b"v"), &[1], &ws(b"k"), &wl(1), &ws(b"x"), &[0], &ws(b"later"), &ws(b"v"), eof])),
        ("dup-key-list-then-set", cat(&[hdr, &[1], &ws(b"k"), &wl(2), &ws(b"a"), &ws(b"b"), &[2], &ws(b"k"), &wl(1), &ws(b"x"), eof])),
        ("dup-key-same-type", cat(&[hdr, &[1], &ws(b"l"), &wl(1), &ws(b"a"), &[1], &ws(b"l"), &wl(2), &ws(b"b"), &ws(b"c"), &[2], &ws(b"s"), &wl(2), &ws(b"a"), &ws(b"a"),
            &[4], &ws(b"h"), &wl(2), &ws(b"f"), &ws(b"1"), &ws(b"f"), &ws(b"2"), &[3], &ws(b"z"), &wl(2), &ws(b"m"), &1.0f64.to_le_bytes(), &ws(b"m"), &0.5f64.to_le_bytes(),
            &[0], &ws(b"str"), &ws(b"1"), &[0xfc], &future, &[0], &ws(b"str"), &ws(b"2"), eof])),
        ("empty-collections", cat(&[hdr, &[1], &ws(b"l"), &wl(0), &[2], &ws(b"s"), &wl(0), &[4], &ws(b"h"), &wl(0), &[3], &ws(b"z"), &wl(0), &[0xfc], &future, &[2], &ws(b"s2"), &wl(0), eof])),
        ("zset-nan-dup", cat(&[hdr, &[3], &ws(b"z"), &wl(3), &ws(b"m"), &f64::NAN.to_le_bytes(), &ws(b"m"), &1.0f64.to_le_bytes(), &ws(b"a"), &f64::NAN.to_le_bytes(), eof])),
        ("stream-bad-ids", cat(&[hdr, &[1], &ws(b"st"), &wl(13), &ws(MARKER), &ws(b"0-0"), &ws(b"1"), &ws(b"f"), &ws(b"v"), &ws(b"5-"), &ws(b"1"), &ws(b"f"), &ws(b"v"),
            &ws(b"3-1"), &ws(b"+1"), &ws(b"f"), &ws(b"v"), eof])),
        ("stream-id-forms", cat(&[hdr, &[1], &ws(b"st"), &wl(17), &ws(MARKER), &ws(b"-7"), &ws(b"1"), &ws(b"f"), &ws(b"v"), &ws(b"18446744073709551616-9"), &ws(b"1"), &ws(b"f"), &ws(b"v"),
            &ws(b"9-9-9"), &ws(b"1"), &ws(b"f"), &ws(b"v"), &ws(b"\xff-1"), &ws(b"1"), &ws(b"f"), &ws(b"v"), eof])),
        ("stream-count-garbage", cat(&[hdr, &[1], &ws(b"st"), &wl(9), &ws(MARKER), &ws(b"1-1"), &ws(b"x"), &ws(b"2-1"), &ws(b"0"), &ws(b"3-1"), &ws(b"9"), &ws(b"f"), &ws(b"v"), &[0], &ws(b"k"), &ws(b"v"), eof])),
        ("stream-dup-field", cat(&[hdr, &[1], &ws(b"st"), &wl(7), &ws(MARKER), &ws(b"1-1"), &ws(b"2"), &ws(b"f"), &ws(b"1"), &ws(b"f"), &ws(b"2"), eof])),
        ("stream-on-string", cat(&[hdr, &[0], &ws(b"st"), &ws(b"v"), &[0xfc], &future, &[1], &ws(b"st"), &wl(5), &ws(MARKER), &ws(b"7-7"), &ws(b"1"), &ws(b"f"), &ws(b"v"), eof])),
        ("stream-short-count", cat(&[hdr, &[1], &ws(b"st"), &wl(3), &ws(MARKER), &ws(b"1-1"), &ws(b"0"), &[0], &ws(b"k"), &ws(b"v"), eof])),
        ("zset2-type", cat(&[hdr, &[5], &ws(b"z"), &wl(1), &ws(b"m"), &(-0.0f64).to_le_bytes(), eof])),
        ("count-huge-no-data", cat(&[hdr, &[2], &ws(b"s"), &[0x80, 0xff, 0xff, 0xff, 0xff], eof])),
        ("aux-and-resize", cat(&[hdr, &[0xfa], &ws(b"x"), &ws(b"y"), &[0xfb, 0x41, 0x00, 0x80, 0, 0, 0, 7], &[0], &ws(b"k"), &ws(b"v"), eof])),
    ]
}

pub fn gen(seed: u64, n: usize, tier: &str) -> Vec<Case> {
    let thorough = tier == "thorough";
    let mut r = Rng::new(seed);
    let mut cases = vec![];
    // crafted files: load, then dump (full comparison of the partial load)
    for (name, bytes) in crafted() {
        let ops = vec![opv("PUTFILE", vec![bv(&bytes)]), op_t("PROBE"), op_t("DUMP")];
        cases.push(Case { id: format!("crafted-{}", name), ops, outs: vec![] });
    }
    // regression cases of the repaired classes rdb-alloc (43b3590) and rdb-fieldcount-overflow (bcfe7be)
    {
        let hdr: &[u8] = b"REDIS0009";
        let b1 = cat(&[hdr, &[0], &[0x80, 0x10, 0, 0, 0], b"abc"]);
        cases.push(Case { id: "regress-rdb-alloc".into(), ops: vec![opv("PUTFILE", vec![bv(&b1)]), op_t("PROBE"), op_t("DUMP")], outs: vec![] });
        let b2 = cat(&[hdr, &[0xfe, 0, 1], &ws(b"s"), &wl(6), &ws(MARKER), &ws(b"1-1"), &ws(b"9223372036854775808"), &ws(b"f"), &ws(b"v"), &ws(b"x"), &[0xff, 0, 0, 0, 0, 0, 0, 0, 0]]);
        cases.push(Case { id: "regress-rdb-fieldcount-overflow".into(), ops: vec![opv("PUTFILE", vec![bv(&b2)]), op_t("PROBE"), op_t("DUMP")], outs: vec![] });
        let b3 = cat(&[hdr, &[0xfe, 0, 1], &ws(b"s"), &wl(6), &ws(MARKER), &ws(b"1-1"), &ws(b"18446744073709551615"), &ws(b"f"), &ws(b"v"), &ws(b"x"), &[0xff, 0, 0, 0, 0, 0, 0, 0, 0]]);
        cases.push(Case { id: "regress-rdb-fieldcount-overflow-b".into(), ops: vec![opv("PUTFILE", vec![bv(&b3)]), op_t("PROBE"), op_t("DUMP")], outs: vec![] });
    }
    // a save whose temporary file cannot be opened leaves the previous dump untouched; a later save works
    for v in 0..2 {
        let mut ops = vec![];
        small_dataset(&mut r, &mut ops, false);
        ops.push(op_t("ISAVE")); ops.push(op_t("RELOAD"));
        ops.push(opv("SET", vec![i(0), bv(b"newer"), bv(b"value"), i(-1)]));
        ops.push(op_t("BLOCKSAVE"));
        ops.push(op_t("RELOAD")); ops.push(op_t("DUMP"));
        if v == 1 { ops.push(opv("SET", vec![i(0), bv(b"newer"), bv(b"value"), i(-1)])); ops.push(op_t("ISAVE")); ops.push(op_t("RELOAD")); ops.push(op_t("DUMP")); }
        cases.push(Case { id: format!("blocked-save-{}", v), ops, outs: vec![] });
    }
    // the temporary file of a save that never finished (the process died) is in the way of nobody
    for v in 0..2 {
        let mut ops = vec![];
        small_dataset(&mut r, &mut ops, false);
        if v == 1 { ops.push(op_t("ISAVE")); ops.push(opv("SET", vec![i(0), bv(b"newer"), bv(b"value"), i(-1)])); }
        ops.push(op_t("STALETMP")); ops.push(op_t("DUMP"));
        if v == 1 { ops.push(op_t("RELOAD")); ops.push(op_t("DUMP")); }
        cases.push(Case { id: format!("stale-tmp-{}", v), ops, outs: vec![] });
    }
    // SAVE while a BGSAVE is still writing (one temporary file for both before aa75b1d)
    for v in 0..2 {
        let mut ops = vec![];
        small_dataset(&mut r, &mut ops, false);
        if v == 1 { ops.push(op_t("ISAVE")); }
        ops.push(op_t("SAVERACE")); ops.push(op_t("DUMP"));
        if v == 1 { ops.push(op_t("RELOAD")); ops.push(op_t("DUMP")); }
        cases.push(Case { id: format!("saverace-{}", v), ops, outs: vec![] });
    }
    // every write call of a save fails in turn (only when the hook is compiled in)
    if c09::Env::has_failat_hook() {
        for v in 0..6 {
            let mut ops = vec![];
            small_dataset(&mut r, &mut ops, false);
            ops.push(op_t("ISAVE"));
            ops.push(opv("SET", vec![i(0), bv(b"newer"), bv(b"value"), i(-1)]));
            ops.push(op_t("FAILSWEEP")); ops.push(op_t("DUMP"));
            cases.push(Case { id: format!("failat-{}", v), ops, outs: vec![] });
        }
        for v in 0..4 {
            let mut ops = vec![];
            small_dataset(&mut r, &mut ops, false);
            ops.push(op_t("BGSWEEP")); ops.push(op_t("DUMP"));
            cases.push(Case { id: format!("bgsave-{}", v), ops, outs: vec![] });
        }
    }
    // (2) saves racing with a writer on one key and one sorted set: regression soak for the repaired
    // classes value-ttl-tear (880a648) and zset-len-tear (e63a0b6); a short soak in the quick tier, a long one in the thorough tier
    {
        let mut ops = vec![];
        small_dataset(&mut r, &mut ops, false);
        ops.push(opv("TEARSTRESS", vec![i(if thorough { 40000 } else { 2500 })]));
        ops.push(op_t("DUMP"));
        cases.push(Case { id: "tear-0".into(), ops, outs: vec![] });
    }
    // every prefix and single-byte corruption of valid dumps written by the implementation / by the model
    let mut k = 0;
    while cases.len() < n {
        let mut ops = vec![];
        let by_model = k % 2 == 1;
        small_dataset(&mut r, &mut ops, by_model);
        if by_model { ops.push(opv("MSAVE", vec![Tok::I(FAR)])); } else { ops.push(op_t("ISAVE")); }
        ops.push(sweep_op(&mut r, thorough, thorough && k < 16));
        ops.push(op_t("RELOAD")); ops.push(op_t("DUMP"));
        cases.push(Case { id: format!("sweep-{}-{}", if by_model { "model" } else { "impl" }, k), ops, outs: vec![] });
        k += 1;
    }
    cases
}

/// C10 on the implementation alone: loading damaged input never panics and never allocates
/// far beyond the file length; a blocked save leaves the dump unchanged.
pub fn judge(c: &Case, outs: &[Vec<Tok>]) -> Vec<String> {
    let mut fails = vec![];
    let case_class = c.id.strip_prefix("class-").map(|s| s.trim_end_matches("-b").to_string());
    let cls = |dflt: &str| -> String { match &case_class { Some(c) => format!(" class={}", c), None => if dflt.is_empty() { String::new() } else { format!(" class={}", dflt) } } };
    for (k, op) in c.ops.iter().enumerate() {
        let out = match outs.get(k) { Some(o) => o, None => break };
        match tok_bytes(&op[0]) {
            b"PROBE" => {
                let st = tok_int(&out[0]);
                if st & 3 == 2 { fails.push(format!("FAIL case={} op={}{} the loader panicked on a damaged file", c.id, k, cls(""))); }
                if st & 4 != 0 { fails.push(format!("FAIL case={} op={}{} the loader asked for an allocation far beyond the file length", c.id, k, cls(""))); }
            }
            b"SWEEP" => {
                let n = tok_int(&out[0]) as usize;
                let (mut panics, mut bigs) = (0, 0);
                for v in 0..n { let st = tok_int(&out[1 + 2 * v]); if st & 3 == 2 { panics += 1; } if st & 4 != 0 { bigs += 1; } }
                if panics > 0 { fails.push(format!("FAIL case={} op={}{} the loader panicked on {} of {} damaged variants", c.id, k, cls(""), panics, n)); }
                if bigs > 0 { fails.push(format!("FAIL case={} op={}{} allocation far beyond the file length on {} of {} damaged variants", c.id, k, cls(""), bigs, n)); }
            }
            b"FAILSWEEP" => {
                if out.len() == 4 && (out[1] != i(1) || out[2] != i(1) || out[3] != i(1)) {
                    fails.push(format!("FAIL case={} op={} failing each of the {:?} write calls of a save: all reported failure {:?}, dump unchanged {:?}, later save ok {:?}", c.id, k, out[0], out[1], out[2], out[3]));
                }
            }
            b"TEARSTRESS" => {
                if op.len() >= 5 && tok_int(&op[3]) > 0 {
                    fails.push(format!("FAIL case={} op={} {} of {} snapshots taken while a client flipped the key between (old, no TTL) and (new, TTL) hold a (value, TTL) pair the key never had", c.id, k, tok_int(&op[3]), tok_int(&op[4])));
                }
                if op.len() >= 7 && tok_int(&op[6]) > 0 {
                    fails.push(format!("FAIL case={} op={} {} snapshots taken while a client changed a sorted set's members and its time to live hold members beside a TTL the key never had with them (the shared set was read later than its TTL)", c.id, k, tok_int(&op[6])));
                }
                if op.len() >= 6 && tok_int(&op[5]) > 0 {
                    fails.push(format!("FAIL case={} op={} {} snapshots taken while a client added/removed a sorted-set member do not load as written (member count written before the items are read)", c.id, k, tok_int(&op[5])));
                }
            }
            b"BGSWEEP" => {
                if out.len() == 7 && out[1..].iter().any(|x| x != &i(1)) {
                    fails.push(format!("FAIL case={} op={} background saves with an injected write failure: accepted {:?}, flag cleared {:?}, dump unchanged {:?}, later bgsave accepted {:?}, newer data published {:?}, save/bgsave mixes {:?}", c.id, k, out[1], out[2], out[3], out[4], out[5], out[6]));
                }
            }
            b"STALETMP" => {
                if out.len() != 2 || out.iter().any(|x| x != &i(1)) {
                    fails.push(format!("FAIL case={} op={} a save that finds the temporary file of a save that never finished: succeeded {:?}, the dump loads as the dataset and no temporary file is left {:?}", c.id, k, out.first(), out.get(1)));
                }
            }
            b"SAVERACE" => {
                if out.len() != 3 || out.iter().any(|x| x != &i(1)) {
                    fails.push(format!("FAIL case={} op={} a SAVE issued while a BGSAVE was writing: foreground saves succeeded {:?}, background saves accepted and ended {:?}, the dump loads as the dataset and no temporary file is left {:?}", c.id, k, out.first(), out.get(1), out.get(2)));
                }
            }
            b"BLOCKSAVE" => {
                if out.first() != Some(&i(1)) || out.get(1) != Some(&i(1)) { fails.push(format!("FAIL case={} op={} a save that could not open its temporary file: status {:?}, dump unchanged {:?}", c.id, k, out.first(), out.get(1))); }
            }
            _ => {}
        }
    }
    fails
}
