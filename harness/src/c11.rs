//! C11: the append-only file is a faithful redo log.
//!
//! Every history runs against a fresh server started with `appendonly yes` in its own
//! scratch directory.  Besides the ops of the TCP runner (srv.rs) a history may contain
//!   AOFREAD t                                 the bytes of <dir>/appendonly.aof and the frames this
//!                                             harness's own RESP reader decodes from them, in the canonical
//!                                             form of Model/Aof.v canon_record (a PEXPIREAT deadline is a
//!                                             wall-clock time: "1" if still ahead when the file is read,
//!                                             "0" if past; the members of an SREM record sorted)
//!   AOFREPLAY c t mode k <k dump requests>    the decoded commands are re-sent, in file order, to a
//!                                             SECOND fresh server (no AOF); the dump requests are then
//!                                             run on the live server (connection c) and on the replayed
//!                                             one and compared.  The op is augmented with the replies of
//!                                             the second server (oracles for the model's SPOP / XADD *)
//!   AOFRESTART c t k <k dump requests>        the server process is killed and started again on the same
//!                                             directory: start-up replays the file (831b342)
//!   CMDQ c t <request>                        a command whose reply is not compared (table tie)
//! (output formats: coq/Model/RunAof.v).
//!
//! Generator: (1) the table tie - every command name of server.rs's dispatch table, read from
//! /repo at run time, is sent once and the file inspected; (2) fixed witnesses: the one open
//! class (a key that expires between the live run and the redo), transactions, scripts, TTL
//! commands followed by a redo / restart after the deadline (the witnesses of the eleven classes
//! repaired in /repo are regression cases in corpus/C11); (3) histories cl-*: the deterministic
//! catalogue in any database (SELECT included) with long TTLs; (4) histories dx-*: additionally
//! SPOP, XADD *, SCRIPT LOAD / EVALSHA (logged by outcome since f085462 / a8393c5), client
//! PEXPIREAT, and short TTLs on keys of their own with a SLEEP past the deadline before the file
//! is read; (5) histories bk-*: blocking pops served at once and by a wake-up (C13's runner ops
//! BCONN / BSEND / BRECV).  The property oracle accepts no disagreement in any of them; one
//! history in three ends with a restart.  Commands come from the string/key family (c01),
//! lists/sets/hashes (c03), a stream/group generator, a sorted-set generator and EVAL of small
//! scripts in the DSL of C12, directly and through MULTI/EXEC (also aborted by WATCH,
//! DISCARDed), on one or two connections.
use crate::resp::*;
use crate::rng::Rng;
use crate::srv::*;
use crate::tok::*;
use crate::{c01, c03, c15};
use std::time::Duration;

const DUMP_CONN: i64 = 9;
const STREAM_KEYS: &[&[u8]] = &[b"x1", b"x2", b""];
const GROUPS: &[&[u8]] = &[b"g1", b"g2"];
const CONSUMERS: &[&[u8]] = &[b"c1", b"c2"];

fn v(x: &[u8]) -> Vec<u8> { x.to_vec() }

pub fn all_keys() -> Vec<Vec<u8>> {
    let mut ks: Vec<Vec<u8>> = vec![];
    let mut add = |k: &[u8]| { if !ks.iter().any(|x| &x[..] == k) { ks.push(k.to_vec()); } };
    for k in c01::KEYS { add(k); }
    for k in c01::OTHER_KEYS { add(k); }
    for k in c03::all_keys() { add(k); }
    for k in STREAM_KEYS { add(k); }
    add(b"x3"); add(b"nokey"); add(b"z2"); add(b"kt1"); add(b"kt2");
    for k in [&b"e1"[..], b"e2", b"el", b"eh", b"es"] { add(k); }
    ks
}

/// the dataset as a client can observe it: per key type, TTL presence and the value read by every
/// type's reader; the groups of the stream keys; the key space of databases 0 and 1
pub fn dump_reqs() -> Vec<V> {
    let mut d = vec![];
    let per_key = |d: &mut Vec<V>| {
        for k in all_keys() {
            d.push(V::cmd(&[b"TYPE", &k])); d.push(V::cmd(&[b"PTTL", &k])); d.push(V::cmd(&[b"GET", &k]));
            d.push(V::cmd(&[b"LRANGE", &k, b"0", b"-1"])); d.push(V::cmd(&[b"SMEMBERS", &k])); d.push(V::cmd(&[b"HGETALL", &k]));
            d.push(V::cmd(&[b"XRANGE", &k, b"-", b"+"])); d.push(V::cmd(&[b"ZRANGE", &k, b"0", b"-1", b"WITHSCORES"]));
        }
    };
    per_key(&mut d);
    for k in STREAM_KEYS.iter().chain([&b"x3"[..]].iter()) {
        d.push(V::cmd(&[b"XINFO", b"STREAM", k])); d.push(V::cmd(&[b"XINFO", b"GROUPS", k]));
        for g in GROUPS { d.push(V::cmd(&[b"XPENDING", k, g])); d.push(V::cmd(&[b"XPENDING", k, g, b"-", b"+", b"1000"])); }
    }
    d.push(V::cmd(&[b"KEYS", b"*"])); d.push(V::cmd(&[b"DBSIZE"]));
    d.push(V::cmd(&[b"SELECT", b"1"])); per_key(&mut d); d.push(V::cmd(&[b"KEYS", b"*"])); d.push(V::cmd(&[b"DBSIZE"]));
    for n in [&b"2"[..], b"15"] { d.push(V::cmd(&[b"SELECT", n])); d.push(V::cmd(&[b"KEYS", b"*"])); d.push(V::cmd(&[b"DBSIZE"])); }
    d.push(V::cmd(&[b"SELECT", b"0"]));
    d
}

pub fn aofread_op() -> Vec<Tok> { vec![b("AOFREAD"), i(0)] }
pub fn aofreplay_op(mode: i64, dump: &[V]) -> Vec<Tok> {
    let mut o = vec![b("AOFREPLAY"), i(DUMP_CONN), i(0), i(mode), i(dump.len() as i64)];
    for d in dump { d.enc(&mut o); }
    o
}
pub fn aofrestart_op(conn: i64, dump: &[V]) -> Vec<Tok> {
    let mut o = vec![b("AOFRESTART"), i(conn), i(0), i(dump.len() as i64)];
    for d in dump { d.enc(&mut o); }
    o
}
pub fn cmdq_op(conn: i64, args: &[&[u8]]) -> Vec<Tok> { let mut o = vec![b("CMDQ"), i(conn), i(0)]; V::cmd(args).enc(&mut o); o }

// ---------------------------------------------------------------- generator
struct StreamSt { next_ms: u64, added: Vec<(Vec<u8>, Vec<u8>)> }

fn stream_cmd(r: &mut Rng, st: &mut StreamSt, dirty: bool, intx: bool) -> Vec<Vec<u8>> {
    let k = v(if r.chance(1, 12) { b"str1" } else { *r.pick(STREAM_KEYS) });
    let g = v(*r.pick(GROUPS)); let c = v(*r.pick(CONSUMERS));
    let known = |r: &mut Rng, st: &StreamSt| -> Vec<u8> {
        let mine: Vec<&Vec<u8>> = st.added.iter().filter(|(kk, _)| *kk == k).map(|(_, i)| i).collect();
        if mine.is_empty() || r.chance(1, 8) { v(*r.pick(&[&b"1-0"[..], b"2-0", b"3-1", b"0-0", b"abc", b"99-0"])) } else { (*r.pick(&mine)).clone() }
    };
    match r.below(40) {
        0..=11 => {
            let id = if dirty && !intx && r.chance(1, 4) { v(b"*") } else if r.chance(1, 8) { v(*r.pick(&[&b"1-0"[..], b"0-0", b"abc", b"2-1"])) } else {
                st.next_ms += 1 + r.below(2);
                let id = format!("{}-{}", st.next_ms, r.below(2)).into_bytes();
                st.added.push((k.clone(), id.clone())); id
            };
            let mut cmd = vec![v(b"XADD"), k.clone(), id];
            for _ in 0..(1 + r.below(2)) { cmd.push(v(*r.pick(c15::FIELDS))); cmd.push(v(*r.pick(c15::VALS))); }
            if r.chance(1, 30) { cmd.pop(); }
            cmd
        }
        12..=14 => { let mut cmd = vec![v(b"XDEL"), k.clone()]; for _ in 0..(1 + r.below(2)) { cmd.push(known(r, st)); } cmd }
        15 | 16 => vec![v(b"XTRIM"), k.clone(), v(b"MAXLEN"), v(*r.pick(&[&b"0"[..], b"1", b"2", b"3", b"abc"]))],
        17 => vec![v(b"XLEN"), k.clone()],
        18 => vec![v(b"XRANGE"), k.clone(), v(b"-"), v(b"+")],
        19..=22 => {
            let mut cmd = vec![v(b"XGROUP"), v(b"CREATE"), k.clone(), g, v(*r.pick(&[&b"0"[..], b"0", b"$", b"2-0", b"abc"]))];
            if r.chance(1, 3) { cmd.push(v(b"MKSTREAM")); }
            cmd
        }
        23 => vec![v(b"XGROUP"), v(b"DESTROY"), k.clone(), g],
        24 | 25 => vec![v(b"XGROUP"), v(b"CREATECONSUMER"), k.clone(), g, c],
        26 => vec![v(b"XGROUP"), v(b"DELCONSUMER"), k.clone(), g, c],
        27 => vec![v(b"XINFO"), v(b"STREAM"), k.clone()],
        28..=31 => {
            if dirty || !dirty {
                let mut cmd = vec![v(b"XREADGROUP"), v(b"GROUP"), g, c];
                if r.chance(1, 2) { cmd.push(v(b"COUNT")); cmd.push(v(*r.pick(&[&b"1"[..], b"2"]))); }
                if r.chance(1, 8) { cmd.push(v(b"NOACK")); }
                cmd.push(v(b"STREAMS")); cmd.push(k.clone()); cmd.push(v(b">"));
                cmd
            } else { vec![v(b"XPENDING"), k.clone(), g] }
        }
        32..=34 => { let mut cmd = vec![v(b"XACK"), k.clone(), g]; for _ in 0..(1 + r.below(2)) { cmd.push(known(r, st)); } cmd }
        35..=37 => {
            let mut cmd = vec![v(b"XCLAIM"), k.clone(), g, c, v(b"0")];
            for _ in 0..(1 + r.below(2)) { cmd.push(known(r, st)); }
            if r.chance(1, 2) { cmd.push(v(b"FORCE")); }
            if r.chance(1, 4) { cmd.push(v(b"JUSTID")); }
            cmd
        }
        38 => vec![v(b"XPENDING"), k.clone(), g, v(b"-"), v(b"+"), v(b"10")],
        _ => vec![v(b"XINFO"), v(b"GROUPS"), k.clone()],
    }
}

fn upper(b: &[u8]) -> Vec<u8> { b.to_ascii_uppercase() }
const RANDOM_NAMES: &[&[u8]] = &[b"SPOP", b"SRANDMEMBER", b"RANDOMKEY"];
/// the names whose commands are outside the domain of theorem c11_replay
const REFUTED_NAMES: &[&[u8]] = &[b"SPOP"];

const ZKEYS: &[&[u8]] = &[b"z1", b"z2", b"z1", b"s1", b"nokey"];
const ZMEMBERS: &[&[u8]] = &[b"a", b"b", b"c", b"", b"\xff\x80"];
/// sorted sets with integer-valued scores (their text is exact on both sides)
fn zset_cmd(r: &mut Rng) -> Vec<Vec<u8>> {
    let k = v(*r.pick(ZKEYS)); let m = v(*r.pick(ZMEMBERS));
    let sc = |r: &mut Rng| v(*r.pick(&[&b"0"[..], b"1", b"2", b"3", b"-1", b"10", b"abc", b"inf"]));
    match r.below(20) {
        0..=7 => { let mut c = vec![v(b"ZADD"), k]; for _ in 0..(1 + r.below(3)) { c.push(sc(r)); c.push(v(*r.pick(ZMEMBERS))); } if r.chance(1, 20) { c.pop(); } c }
        8 | 9 => vec![v(b"ZREM"), k, m, v(*r.pick(ZMEMBERS))],
        10..=12 => vec![v(b"ZINCRBY"), k, v(*r.pick(&[&b"1"[..], b"-1", b"2", b"5", b"x"])), m],
        13 | 14 => { let mut c = vec![v(if r.chance(1, 2) { b"ZPOPMIN" } else { b"ZPOPMAX" }), k]; if r.chance(1, 2) { c.push(v(*r.pick(&[&b"1"[..], b"2", b"0", b"10", b"x"]))); } c }
        15 => vec![v(b"ZSCORE"), k, m],
        16 => vec![v(b"ZCARD"), k],
        17 => vec![v(b"ZRANK"), k, m],
        18 => vec![v(b"ZCOUNT"), k, v(b"-inf"), v(b"+inf")],
        _ => vec![v(b"ZRANGE"), k, v(b"0"), v(b"-1"), v(b"WITHSCORES")],
    }
}
/// a script in the concrete syntax of C12's DSL (harness/src/c12.rs print_script): redis.call of
/// 1-3 commands with string-literal arguments, all results returned.  A failing call aborts the
/// script; the writes before it stay (the whole EVAL is logged verbatim either way).
fn lua_str(b: &[u8]) -> String { let mut s = String::from("\""); for c in b { s += &format!("\\{:03}", c); } s.push('"'); s }
pub fn script_of(calls: &[Vec<Vec<u8>>], pcall: bool) -> Vec<u8> {
    let mut o = String::from("local r={}\n");
    for (j, c) in calls.iter().enumerate() {
        o += &format!("r[{}]=redis.{}({})\n", j + 1, if pcall { "pcall" } else { "call" }, c.iter().map(|a| lua_str(a)).collect::<Vec<_>>().join(","));
    }
    o += "return r";
    o.into_bytes()
}
/// (the calls cannot fail - integer strings e1, strings e2, list el, hash eh are keys no other command
/// touches: how a failing redis.call / redis.pcall ends a script is C12's subject, repaired in /repo by
/// 38e52a4 / 2ecc978 after the script model on main was written)
fn gen_script(r: &mut Rng) -> Vec<u8> {
    let n = 1 + r.below(3);
    let mut calls = vec![];
    for _ in 0..n {
        calls.push(match r.below(9) {
            0 | 1 => vec![v(b"SET"), v(b"e1"), v(*r.pick(&[&b"1"[..], b"7", b"10"]))],
            2 | 3 => vec![v(b"INCR"), v(b"e1")],
            4 => vec![v(b"RPUSH"), v(b"el"), v(b"e")],
            5 => vec![v(b"HSET"), v(b"eh"), v(*r.pick(&[&b"f"[..], b"g"])), v(b"1")],
            6 => vec![v(b"DEL"), v(*r.pick(&[&b"e1"[..], b"e2", b"el", b"eh"]))],
            7 => vec![v(b"SADD"), v(b"es"), v(*r.pick(&[&b"a"[..], b"b"]))],
            _ => vec![v(b"APPEND"), v(b"e2"), v(b"+")],
        });
    }
    script_of(&calls, r.chance(1, 4))
}
fn eval_cmd(r: &mut Rng) -> Vec<Vec<u8>> { vec![v(b"EVAL"), gen_script(r), v(b"0")] }

fn gen_cmd(r: &mut Rng, g3: &mut c03::Gen, st: &mut StreamSt, dirty: bool, intx: bool, db0: bool, shas: &[Vec<u8>], restarts: bool) -> Option<Vec<Vec<u8>>> {
    let cmd = match r.below(100) {
        0..=29 => c01::gen_cmd(r),
        30..=57 => g3.cmd(),
        58..=77 => stream_cmd(r, st, dirty, intx),
        // sorted sets: the model needs the f64 oracle of the arguments, which a queued command loses
        78..=89 => if !intx { zset_cmd(r) } else { vec![v(b"PING")] },
        // scripts run in database 0 only (the executor's database handling is C12's subject) and not under MULTI
        90..=94 => if db0 && !intx {
            // EVALSHA of a script loaded at the start of the history (logged as the EVAL of its source: a8393c5),
            // now and then of a hash that names no script (nothing runs, nothing is logged)
            if !shas.is_empty() && r.chance(1, 2) {
                let sha = if r.chance(1, 6) { v(b"00000000000000000000000000000000000000ff") } else { r.pick(shas).clone() };
                vec![v(b"EVALSHA"), sha, v(b"0")]
            } else { eval_cmd(r) }
        } else { vec![v(b"PING")] },
        95 => vec![v(b"FLUSHDB")],
        96 => if r.chance(1, 3) { vec![v(b"FLUSHALL")] } else { vec![v(b"DBSIZE")] },
        97 => vec![v(b"NOSUCHCMD"), v(b"k1")],
        // the command the file uses for deadlines (98d0d1a), sent by a client: a time long past, a time far ahead
        // (year 3000), not a number.  (The keys are none of the WATCHed ones: Server.v has no mark for it.)
        98 => if dirty { vec![v(b"PEXPIREAT"), v(*r.pick(&[&b"k1"[..], b"k2", b"ka", b"l1", b"nokey"])), v(*r.pick(&[&b"0"[..], b"-5", b"32503680000000", b"32503680000000", b"abc"]))] }
              else { vec![v(b"PING")] },
        _ => vec![v(b"PING")],
    };
    let name = upper(&cmd[0]);
    // inputs in classes of C01 / C04 / C16 that /repo repaired after the models on main were written
    // (48bcb4d SET zero expiry, f4c6282 SET NX XX, 1a8fa0e SETRANGE empty value, 67ce0e4 ZPOP count 0,
    // da451f0 / 92eb72a explicit-ID XREADGROUP and SETID, 3be45c2 stream ID text): stay outside them
    let has = |w: &[u8]| cmd.iter().skip(3).any(|a| a.eq_ignore_ascii_case(w));
    if name == b"SET" && ((has(b"NX") && has(b"XX")) || cmd.windows(2).any(|w| (w[0].eq_ignore_ascii_case(b"EX") || w[0].eq_ignore_ascii_case(b"PX")) && w[1] == b"0")) { return None; }
    if name == b"SETRANGE" && cmd.get(3).map_or(false, |x| x.is_empty()) { return None; }
    // class startup-executor-differs: the direct SET / INCR / INCRBY refuse the empty key, the record is in the
    // file all the same, and start-up replays it through the command executor, which accepts it (witness:
    // binary_witnesses)
    if restarts && matches!(&name[..], b"SET" | b"INCR" | b"INCRBY") && cmd.get(1).map_or(false, |x| x.is_empty()) { return None; }
    // times to live so long that the deadline, as a Unix time in milliseconds, no longer fits an i64: the
    // PEXPIREAT record then holds a number the replay refuses (harmless: the key keeps the relative time
    // the record before it gave it) - the model's clock starts at 0 and cannot mirror where that happens
    if matches!(&name[..], b"SET" | b"SETEX" | b"PSETEX" | b"EXPIRE" | b"PEXPIRE") && cmd.iter().skip(2).any(|a| a.len() >= 16 && a.iter().all(|c| c.is_ascii_digit())) { return None; }
    if (name == b"ZPOPMIN" || name == b"ZPOPMAX") && cmd.get(2).map_or(false, |x| x == b"0") { return None; }
    if intx && (RANDOM_NAMES.contains(&&name[..]) || (name == b"XADD" && cmd.get(2).map_or(false, |x| x == b"*"))) { return None; }
    if !dirty {
        if REFUTED_NAMES.contains(&&name[..]) { return None; }
        if name == b"XADD" && cmd.get(2).map_or(false, |x| x == b"*") { return None; }
    }
    Some(cmd)
}

fn push(ops: &mut Vec<Vec<Tok>>, c: i64, cmd: &[Vec<u8>]) { let refs: Vec<&[u8]> = cmd.iter().map(|x| &x[..]).collect(); ops.push(cmd_op(c, &refs)); }

fn random_case(r: &mut Rng, id: String, dirty: bool) -> Case {
    let mut g3 = c03::Gen::new(r.fork());
    let mut st = StreamSt { next_ms: 1, added: vec![] };
    let nconn = 1 + r.below(2) as i64;
    let mut ops = vec![];
    for c in 1..=nconn { ops.push(conn_op(c)); }
    ops.push(conn_op(DUMP_CONN));
    // the background sweeper is stopped: expired keys are removed by commands only
    ops.push(cmd_op(DUMP_CONN, &[b"VERIF", b"SWEEP", b"PAUSE"]));
    if r.chance(3, 4) {
        push(&mut ops, 1, &[v(b"RPUSH"), v(b"l1"), v(b"a"), v(b"b"), v(b"c")]);
        push(&mut ops, 1, &[v(b"SADD"), v(b"s1"), v(b"a"), v(b"b"), v(b"c"), v(b"d")]);
        push(&mut ops, 1, &[v(b"HSET"), v(b"h1"), v(b"f1"), v(b"10"), v(b"n"), v(b"1")]);
        push(&mut ops, 1, &[v(b"XADD"), v(b"x1"), v(b"1-1"), v(b"f"), v(b"v")]);
        push(&mut ops, 1, &[v(b"XGROUP"), v(b"CREATE"), v(b"x1"), v(b"g1"), v(b"0")]);
        push(&mut ops, 1, &[v(b"SET"), v(b"str1"), v(b"v")]);
        st.added.push((v(b"x1"), v(b"1-1")));
    }
    // dx: two scripts in the cache for EVALSHA
    let mut shas: Vec<Vec<u8>> = vec![];
    if dirty {
        for _ in 0..2 { let src = gen_script(r); ops.push(cmd_op(1, &[b"SCRIPT", b"LOAD", &src])); shas.push(crate::c12::sha1_hex(&src)); }
    }
    // dx, one in three: short times to live on keys no other command touches, and a SLEEP past every such
    // deadline before the file is read - the redo and the restart then run after the deadlines (98d0d1a).
    // (Commands that build on a key which was alive when they ran and is past its deadline at the redo are
    // the one open class: witness w-expiry-unlogged.)
    let short_ttl = dirty && r.chance(1, 3);
    if short_ttl {
        for _ in 0..(1 + r.below(4)) {
            let k: &[u8] = if r.chance(1, 2) { b"kt1" } else { b"kt2" };
            match r.below(6) {
                0 => ops.push(cmd_op(1, &[b"SET", k, b"v", b"PX", b"1200"])),
                1 => ops.push(cmd_op(1, &[b"PSETEX", k, b"1300", b"v"])),
                2 => ops.push(cmd_op(1, &[b"SETEX", k, b"1", b"v"])),
                3 => { ops.push(cmd_op(1, &[b"SET", k, b"v"])); ops.push(cmd_op(1, &[b"PEXPIRE", k, b"1250"])); }
                4 => ops.push(cmd_op(1, &[b"EXPIRE", k, b"1"])),
                _ => ops.push(cmd_op(1, &[b"SET", k, b"w", b"EX", b"1", b"NX"])),
            }
        }
    }
    let restarts = r.chance(1, 3);
    let mut intx = vec![false; 4];
    let mut dbs = vec![0i64; 4];            // the database each connection has selected
    let big = r.chance(1, 4); let len = 4 + r.below(if big { 70 } else { 30 });
    for _ in 0..len {
        let c = 1 + r.below(nconn as u64) as i64;
        let cu = c as usize;
        match r.below(24) {
            0 | 1 => if !intx[cu] { ops.push(cmd_op(c, &[b"MULTI"])); intx[cu] = true; },
            2 | 3 | 4 => if intx[cu] { ops.push(cmd_op(c, &[if r.chance(1, 8) { b"DISCARD" } else { b"EXEC" }])); intx[cu] = false; },
            // watched keys: written by the string and list/set/hash families only (Server.v has no marks for
            // sorted sets, scripts and PEXPIREAT; the group-command marks follow cc8be72 on main later)
            5 => if !intx[cu] && r.chance(1, 2) { ops.push(cmd_op(c, &[b"WATCH", *r.pick(&[&b"kb"[..], b"k3", b"s2"])])); },
            6 => if r.chance(1, 2) {
                let n = *r.pick(&[&b"0"[..], b"0", b"1", b"1", b"2", b"15", b"16"]);
                ops.push(cmd_op(c, &[b"SELECT", n]));
                // queued under MULTI it takes effect at EXEC (1ecc022) - unless the EXEC is aborted or the
                // queue DISCARDed: from then on the generator no longer knows the database (-1: no EVAL)
                if n != b"16" { dbs[cu] = if intx[cu] { -1 } else { String::from_utf8_lossy(n).parse().unwrap() }; }
            },
            _ => {
                if let Some(cmd) = gen_cmd(r, &mut g3, &mut st, dirty, intx[cu], dbs[cu] == 0, &shas, restarts) {
                    // (a non-bulk argument: not in histories that restart - the direct DEL skips it, the executor
                    // that replays the record at start-up refuses the command: class startup-executor-differs)
                    if !restarts && r.chance(1, 50) && cmd.len() >= 2 && upper(&cmd[0]) != b"EVAL" && upper(&cmd[0]) != b"MSET" {
                        let pos = 1 + r.below(cmd.len() as u64 - 1) as usize;
                        let mut fr: Vec<V> = cmd.iter().map(|a| V::Bulk(a.clone())).collect();
                        fr[pos] = if r.chance(1, 2) { V::Int(5) } else { V::NullBulk };
                        ops.push(cmd_frame_op(c, &V::Array(fr)));
                    } else {
                        // d9160ac (XREADGROUP on a key that does not exist answers NOGROUP) is not yet in the
                        // stream model on main: the key is made to exist first (as a stream, unless it holds
                        // another type), with or without the group
                        if upper(&cmd[0]) == b"XREADGROUP" && cmd.len() >= 4 {
                            let key = cmd[cmd.len() - 2].clone();
                            if r.chance(1, 2) { push(&mut ops, c, &[v(b"XGROUP"), v(b"CREATE"), key, cmd[2].clone(), v(b"$"), v(b"MKSTREAM")]); }
                            else { st.next_ms += 1; let id = format!("{}-0", st.next_ms).into_bytes(); st.added.push((key.clone(), id.clone()));
                                   push(&mut ops, c, &[v(b"XADD"), key, id, v(b"f"), v(b"v")]); }
                        }
                        push(&mut ops, c, &cmd);
                    }
                }
            }
        }
    }
    for c in 1..=nconn { if intx[c as usize] { ops.push(cmd_op(c, &[b"EXEC"])); } }
    if r.chance(1, 5) {
        // a transaction aborted by WATCH: its writes are neither executed nor logged
        let k = *r.pick(&[&b"k1"[..], b"k2", b"ka", b"kb"]);
        ops.push(cmd_op(1, &[b"WATCH", k]));
        ops.push(cmd_op(nconn, &[b"SET", k, b"touched"]));
        ops.push(cmd_op(1, &[b"MULTI"]));
        ops.push(cmd_op(1, &[b"SET", k, b"lost"]));
        ops.push(cmd_op(1, &[b"RPUSH", b"l2", b"lost"]));
        ops.push(cmd_op(1, &[b"EXEC"]));
    }
    if short_ttl { ops.push(sleep_op(1800)); }
    let dump = dump_reqs();
    ops.push(aofread_op());
    ops.push(aofreplay_op(1, &dump));
    if restarts { ops.push(aofrestart_op(8, &dump)); }
    Case { id, ops, outs: vec![] }
}

/// blocking pops (293eff6: a served pop is logged as the LPOP / RPOP of the key, when it is served):
/// served at once, served by the push of another client, in databases 0 and 1, several clients
/// waiting on one key; then the file, the redo and (one in two) a restart
fn bdump() -> Vec<V> {
    let mut d = vec![];
    for db in [&b"0"[..], b"1"] {
        d.push(V::cmd(&[b"SELECT", db]));
        for k in [&b"l1"[..], b"l2", b"l3"] { d.push(V::cmd(&[b"TYPE", k])); d.push(V::cmd(&[b"LRANGE", k, b"0", b"-1"])); }
        d.push(V::cmd(&[b"KEYS", b"*"])); d.push(V::cmd(&[b"DBSIZE"]));
    }
    d.push(V::cmd(&[b"SELECT", b"0"]));
    d
}
fn blocking_case(r: &mut Rng, id: String) -> Case {
    const OBS: i64 = DUMP_CONN;
    let keys: &[&[u8]] = &[b"l1", b"l2", b"l3"];
    let nc = 2 + r.below(2) as i64;
    let mut ops = vec![conn_op(OBS)];
    for c in 1..=nc { ops.push(bconn_op(c)); }
    ops.push(cmd_op(OBS, &[b"VERIF", b"SWEEP", b"PAUSE"]));
    let mut obs_db = 0i64;
    let mut waiting = vec![false; 8];
    let els: &[&[u8]] = &[b"a", b"b", b"c", b"\xff", b""];
    if r.chance(1, 3) { let c = 1 + r.below(nc as u64) as i64; ops.push(bsend_op(c, &[V::cmd(&[b"SELECT", b"1"])])); ops.push(brecv_op(c)); }
    for _ in 0..(4 + r.below(14)) {
        let c = 1 + r.below(nc as u64) as i64;
        let k = *r.pick(keys);
        match r.below(12) {
            // a blocking pop without a timeout: served at once if the list has an element, else it waits
            0..=4 => if !waiting[c as usize] {
                let name: &[u8] = if r.chance(1, 2) { b"BLPOP" } else { b"BRPOP" };
                let q = if r.chance(1, 4) { V::cmd(&[name, k, *r.pick(keys), b"0"]) } else { V::cmd(&[name, k, b"0"]) };
                ops.push(bsend_op(c, &[q])); ops.push(brecv_op(c));
                waiting[c as usize] = true;       // (possibly: a BRECV that brings the answer is harmless either way)
            },
            // a push by the observer: wakes a waiting client, or stays in the list
            5..=8 => {
                let name: &[u8] = if r.chance(1, 2) { b"RPUSH" } else { b"LPUSH" };
                let mut q: Vec<&[u8]> = vec![name, k]; for _ in 0..(1 + r.below(3)) { q.push(*r.pick(els)); }
                ops.push(cmd_op(OBS, &q));
                for c2 in 1..=nc { ops.push(brecv_op(c2)); waiting[c2 as usize] = false; }
            }
            9 => { obs_db = 1 - obs_db; ops.push(cmd_op(OBS, &[b"SELECT", if obs_db == 0 { b"0" } else { b"1" }])); }
            10 => ops.push(cmd_op(OBS, &[if r.chance(1, 2) { b"LPOP" } else { b"RPOP" }, k])),
            _ => ops.push(cmd_op(OBS, &[b"LRANGE", k, b"0", b"-1"])),
        }
    }
    for c in 1..=nc { ops.push(brecv_op(c)); }
    if obs_db != 0 { ops.push(cmd_op(OBS, &[b"SELECT", b"0"])); }
    let dump = bdump();
    ops.push(aofread_op());
    ops.push(aofreplay_op(1, &dump));
    if r.chance(1, 2) { ops.push(aofrestart_op(8, &dump)); }
    Case { id: format!("bk-{}", id), ops, outs: vec![] }
}

/// every command name of the dispatch table, once, each on its own connection; then the file.
/// Names that would end or hijack the server process / the connection are left out.
fn table_case() -> Case {
    const SKIP: &[&str] = &["SHUTDOWN", "SYNC", "PSYNC", "REPLICAOF", "SLAVEOF", "MONITOR", "BGREWRITEAOF", "SAVE", "BGSAVE",
                            "MULTI", "EXEC", "DISCARD", "WATCH", "UNWATCH", "QUIT", "AUTH", "SELECT", "SUBSCRIBE", "PSUBSCRIBE",
                            "UNSUBSCRIBE", "PUNSUBSCRIBE", "REPLCONF", "SLEEP"];
    let mut ops = vec![];
    let mut c = 10;
    for n in dispatch_names() {
        if SKIP.contains(&&n[..]) { continue; }
        ops.push(conn_op(c));
        // (PEXPIREAT: a deadline that is past on the wall clock and on the model's clock alike)
        ops.push(cmdq_op(c, &[n.as_bytes(), b"tk", if n == "PEXPIREAT" { b"0" } else { b"1" }]));
        ops.push(close_op(c));
        c += 1;
    }
    ops.push(aofread_op());
    Case { id: "table".to_string(), ops, outs: vec![] }
}

/// one-connection history + AOFREAD + AOFREPLAY (mode 1 unless the class is random)
pub fn witness(id: &str, cmds: &[&[&[u8]]], mode: i64, dump: &[V]) -> Case {
    let mut ops = vec![conn_op(1), conn_op(DUMP_CONN), cmd_op(DUMP_CONN, &[b"VERIF", b"SWEEP", b"PAUSE"])];
    for c in cmds { ops.push(cmd_op(1, c)); }
    ops.push(aofread_op());
    ops.push(aofreplay_op(mode, dump));
    Case { id: id.to_string(), ops, outs: vec![] }
}

fn kd(keys: &[&[u8]]) -> Vec<V> {
    let mut d = vec![];
    for k in keys { d.push(V::cmd(&[b"TYPE", k])); d.push(V::cmd(&[b"PTTL", k])); d.push(V::cmd(&[b"GET", k])); d.push(V::cmd(&[b"HGETALL", k]));
                    d.push(V::cmd(&[b"LRANGE", k, b"0", b"-1"])); d.push(V::cmd(&[b"XPENDING", k, b"g1"])); }
    d.push(V::cmd(&[b"DBSIZE"])); d
}
/// the witnesses of the classes repaired in /repo (8d99f01, 7ef6fad, 39510e9; 293eff6, a8393c5, f085462,
/// 98d0d1a, 831b342): stored as regression cases in corpus/C11/fixed-classes.case (written from here:
/// `gen C11 --tier corpus-witnesses`)
pub fn fixed_class_witnesses() -> Vec<Case> {
    let mut w = vec![
        witness("r-unlogged-getset", &[&[b"SET", b"k", b"a"], &[b"GETSET", b"k", b"b"]], 1, &kd(&[b"k"])),
        witness("r-unlogged-hmset", &[&[b"HMSET", b"h", b"f", b"1"]], 1, &kd(&[b"h"])),
        witness("r-unlogged-pexpire", &[&[b"SET", b"k", b"a"], &[b"PEXPIRE", b"k", b"100000"]], 1, &kd(&[b"k"])),
        witness("r-unlogged-xreadgroup", &[&[b"XADD", b"x", b"1-1", b"f", b"v"], &[b"XGROUP", b"CREATE", b"x", b"g1", b"0"],
                                            &[b"XREADGROUP", b"GROUP", b"g1", b"c1", b"STREAMS", b"x", b">"]], 1, &kd(&[b"x"])),
        witness("r-no-select", &[&[b"SELECT", b"1"], &[b"SET", b"k", b"a"], &[b"SELECT", b"0"], &[b"SET", b"j", b"b"], &[b"SELECT", b"1"],
                                  &[b"GET", b"k"], &[b"APPEND", b"k", b"c"]], 1, &{ let mut d = kd(&[b"k", b"j"]); d.push(V::cmd(&[b"SELECT", b"1"])); d.extend(kd(&[b"k", b"j"])); d.push(V::cmd(&[b"SELECT", b"0"])); d }),
    ];
    let mut c = Case { id: "r-restart-nonutf8".to_string(), ops: vec![conn_op(1), cmd_op(1, &[b"SET", b"k", b"\xff"])], outs: vec![] };
    c.ops.push(aofread_op()); c.ops.push(aofrestart_op(2, &kd(&[b"k"])));
    // after the restart the engine has forgotten its database: the next write is preceded by SELECT again
    c.ops.push(cmd_op(2, &[b"SET", b"j", b"b"])); c.ops.push(aofread_op()); w.push(c);
    // 98d0d1a: the deadline is in the file as an absolute time - gone live after 1.5 s, gone after the redo too
    { let mut c = witness("r-expired-unlogged", &[&[b"SET", b"k", b"v", b"PX", b"1500"]], 1, &kd(&[b"k"]));
      let n = c.ops.len(); c.ops.insert(n - 2, sleep_op(1800)); w.push(c); }
    // f085462: random outcomes are logged as what they amounted to (SREM of the popped members, XADD with the ID)
    let members: Vec<Vec<u8>> = (0..40).map(|j| format!("m{}", j).into_bytes()).collect();
    let mut sadd: Vec<&[u8]> = vec![b"SADD", b"s"]; for m in &members { sadd.push(m); }
    w.push(witness("r-random-spop", &[&sadd, &[b"SPOP", b"s", b"20"], &[b"SPOP", b"s"]], 1, &[V::cmd(&[b"SMEMBERS", b"s"]), V::cmd(&[b"SCARD", b"s"])]));
    w.push(witness("r-random-xadd", &[&[b"XADD", b"x", b"*", b"f", b"v"], &[b"XADD", b"x", b"*", b"g", b"w"]], 1, &[V::cmd(&[b"XRANGE", b"x", b"-", b"+"]), V::cmd(&[b"XLEN", b"x"])]));
    // a8393c5: EVALSHA is logged as the EVAL of the script
    { let src = script_of(&[vec![v(b"SET"), v(b"k"), v(b"v")]], false); let sha = crate::c12::sha1_hex(&src);
      w.push(witness("r-evalsha", &[&[b"SCRIPT", b"LOAD", &src], &[b"EVALSHA", &sha, b"0"]], 1, &kd(&[b"k"]))); }
    // 831b342: the file is replayed at start-up
    let mut c = Case { id: "r-restart-recovers".to_string(), ops: vec![conn_op(1), cmd_op(1, &[b"SET", b"k", b"a"]), cmd_op(1, &[b"RPUSH", b"l", b"x"])], outs: vec![] };
    c.ops.push(aofread_op()); c.ops.push(aofrestart_op(2, &kd(&[b"k", b"l"]))); w.push(c);
    // 293eff6: a blocking pop that is served is in the file as the LPOP / RPOP of the key
    let ld = vec![V::cmd(&[b"LRANGE", b"l", b"0", b"-1"]), V::cmd(&[b"GET", b"k"]), V::cmd(&[b"DBSIZE"])];
    let pre = || vec![conn_op(DUMP_CONN), bconn_op(1), bconn_op(2), cmd_op(DUMP_CONN, &[b"VERIF", b"SWEEP", b"PAUSE"])];
    let fin = |mut ops: Vec<Vec<Tok>>, id: &str| { ops.push(aofread_op()); ops.push(aofreplay_op(1, &ld)); Case { id: id.to_string(), ops, outs: vec![] } };
    let mut a = pre(); a.push(cmd_op(DUMP_CONN, &[b"RPUSH", b"l", b"a", b"b"])); a.push(bsend_op(1, &[V::cmd(&[b"BLPOP", b"l", b"0"])])); a.push(brecv_op(1));
    let mut b2 = pre(); b2.push(bsend_op(1, &[V::cmd(&[b"BRPOP", b"l", b"0"])])); b2.push(brecv_op(1));
    b2.push(cmd_op(DUMP_CONN, &[b"RPUSH", b"l", b"a", b"b"])); b2.push(brecv_op(1));
    w.push(fin(a, "bk-r-blpop-immediate")); w.push(fin(b2, "bk-r-blpop-served"));
    w
}

pub fn witnesses() -> Vec<Case> {
    let two_dbs = { let mut d = kd(&[b"a", b"b"]); d.push(V::cmd(&[b"SELECT", b"1"])); d.extend(kd(&[b"a", b"b"])); d.push(V::cmd(&[b"SELECT", b"0"])); d };
    let mut w = vec![
        // the one open class: no record is written when a key expires, so commands that ran while the key
        // was alive and are redone after its deadline act on a different dataset.  Live: j = v for good.
        // Redo 1.8 s later: k is past its deadline (PEXPIREAT deletes it), RENAME fails, there is no j
        { let mut c = witness("w-expiry-unlogged", &[&[b"SET", b"k", b"v", b"PX", b"1500"], &[b"RENAME", b"k", b"j"], &[b"PERSIST", b"j"]], 1, &kd(&[b"k", b"j"]));
          let n = c.ops.len(); c.ops.insert(n - 2, sleep_op(1800)); c },
        // the same class without RENAME: a deadline that was extended (or lifted by PERSIST) while the key was
        // alive - the redo, run after the first deadline, deletes the key at its first PEXPIREAT record
        { let mut c = witness("w-expiry-extended", &[&[b"SET", b"q", b"z", b"EX", b"1"], &[b"PEXPIRE", b"q", b"500000"], &[b"SET", b"p", b"1", b"PX", b"1200"], &[b"INCR", b"p"], &[b"PERSIST", b"p"]], 1, &kd(&[b"q", b"p"]));
          let n = c.ops.len(); c.ops.insert(n - 2, sleep_op(1800)); c },
        witness("w-tx-select", &[&[b"MULTI"], &[b"SET", b"a", b"1"], &[b"SELECT", b"1"], &[b"SET", b"b", b"2"], &[b"GET", b"b"], &[b"EXEC"],
                                  &[b"APPEND", b"b", b"3"]], 1, &two_dbs),
        witness("w-tx-logged", &[&[b"MULTI"], &[b"SET", b"k", b"a"], &[b"RPUSH", b"l", b"x", b"y"], &[b"GET", b"k"], &[b"EXEC"],
                                  &[b"MULTI"], &[b"SET", b"k", b"b"], &[b"DISCARD"]], 1, &kd(&[b"k", b"l"])),
        witness("w-tx-ttl", &[&[b"MULTI"], &[b"SET", b"k", b"a", b"EX", b"100"], &[b"SELECT", b"1"], &[b"SETEX", b"k", b"100", b"b"], &[b"EXEC"]], 1,
                &{ let mut d = kd(&[b"k"]); d.push(V::cmd(&[b"SELECT", b"1"])); d.extend(kd(&[b"k"])); d.push(V::cmd(&[b"SELECT", b"0"])); d }),
    ];
    // TTL commands, then the redo and a restart after some of the deadlines
    let tk: &[&[u8]] = &[b"k", b"j", b"m", b"n", b"p", b"q"];
    let mut c = witness("w-ttl-after-deadline", &[&[b"SET", b"k", b"v", b"PX", b"1500"], &[b"SETEX", b"j", b"100", b"w"], &[b"PSETEX", b"m", b"1400", b"x"],
        &[b"SET", b"n", b"y"], &[b"EXPIRE", b"n", b"1"], &[b"SET", b"p", b"z", b"EX", b"100"], &[b"PEXPIRE", b"p", b"1300"],
        &[b"SET", b"q", b"z", b"EX", b"100"], &[b"PEXPIRE", b"q", b"500000"], &[b"EXPIRE", b"nokey", b"100"], &[b"SET", b"k", b"v2", b"NX", b"EX", b"100"]], 1, &kd(tk));
    let n = c.ops.len(); c.ops.insert(n - 2, sleep_op(1800)); c.ops.push(aofrestart_op(2, &kd(tk))); w.push(c);
    let mut c = witness("w-ttl-before-deadline", &[&[b"SET", b"k", b"v", b"EX", b"100"], &[b"SET", b"j", b"w"], &[b"PEXPIREAT", b"j", b"32503680000000"], &[b"SET", b"m", b"x"], &[b"PEXPIREAT", b"m", b"0"]], 1, &kd(tk));
    c.ops.push(aofrestart_op(2, &kd(tk))); w.push(c);
    w
}

/// witnesses of classes the model of this branch does not reproduce: replayed on the implementation
/// only (known_findings.json), never generated for the differential run.
/// startup-executor-differs: start-up replays the file through the command executor (the one redis.call
/// uses), not through the handlers that ran the commands - the direct SET refuses an empty key, the
/// refused command is in the file (commands are logged before they run), the executor accepts it
pub fn binary_witnesses() -> Vec<Case> {
    let d = vec![V::cmd(&[b"TYPE", b""]), V::cmd(&[b"DBSIZE"])];
    let mut ops = vec![conn_op(1), conn_op(DUMP_CONN), cmd_op(1, &[b"SET", b"", b"a"]), cmd_op(1, &[b"TYPE", b""]), cmd_op(1, &[b"DBSIZE"])];
    ops.push(aofread_op()); ops.push(aofreplay_op(1, &d)); ops.push(aofrestart_op(2, &d));
    vec![Case { id: "w-startup-executor".to_string(), ops, outs: vec![] }]
}

pub fn gen(seed: u64, n: usize, tier: &str) -> Vec<Case> {
    if tier == "binary-witnesses" { return binary_witnesses(); }
    if tier == "corpus-witnesses" { return fixed_class_witnesses(); }
    let mut r = Rng::new(seed);
    let mut cases = vec![table_case()];
    cases.extend(witnesses());
    for id in 0..n {
        if id % 8 == 7 { let c = blocking_case(&mut r, format!("{}", id)); cases.push(c); continue; }
        let dirty = id % 3 == 2;
        let c = random_case(&mut r, format!("{}-{}", if dirty { "dx" } else { "cl" }, id), dirty);
        cases.push(c);
    }
    cases
}

// ---------------------------------------------------------------- runner
fn scratch_dir() -> std::path::PathBuf {
    static N: std::sync::atomic::AtomicU64 = std::sync::atomic::AtomicU64::new(0);
    let base = match std::env::var("VERIF_SCRATCH") {
        Ok(b) => std::path::PathBuf::from(b),
        // <build>/target/<profile>/verif-harness -> <build>/scratch
        Err(_) => std::env::current_exe().ok().and_then(|e| e.parent().and_then(|p| p.parent()).and_then(|p| p.parent()).map(|p| p.join("scratch")))
            .unwrap_or_else(|| std::env::temp_dir().join("verif_scratch")),
    };
    base.join(format!("c11_{}_{}", std::process::id(), N.fetch_add(1, std::sync::atomic::Ordering::SeqCst)))
}

/// the frames of the file and whether it ends on a frame boundary
pub fn parse_aof(bytes: &[u8]) -> (Vec<V>, bool) {
    let mut pos = 0; let mut out = vec![];
    while pos < bytes.len() {
        match Client::parse(bytes, &mut pos) { Some(Ok(f)) => out.push(f), _ => return (out, false) }
    }
    (out, true)
}
fn read_aof(r: &Runner) -> Vec<u8> { std::fs::read(r.srv.dir.join("appendonly.aof")).unwrap_or_default() }

fn ask(cl: &mut Client, req: &V, ms: u64) -> V {
    let mut w = vec![]; req.wire(&mut w);
    if !cl.send(&w) { return V::Error(b"CLOSED".to_vec()); }
    match cl.read(ms) { Rd::Val(x) => x, Rd::Timeout => V::Error(b"TIMEOUT".to_vec()), Rd::Closed => V::Error(b"CLOSED".to_vec()), Rd::Bad => V::Error(b"BADREPLY".to_vec()) }
}
fn dump(cl: &mut Client, reqs: &[V]) -> Vec<V> { reqs.iter().map(|q| canon_full(q, ask(cl, q, 3000))).collect() }
fn dec_n(op: &[Tok], pos: &mut usize, k: usize) -> Option<Vec<V>> { let mut l = vec![]; for _ in 0..k { l.push(V::dec(op, pos)?); } Some(l) }

/// Model/Aof.v canon_record: a PEXPIREAT deadline is a wall-clock time (the model's clock starts at 0):
/// compared by whether it is still ahead; the members of an SREM record sorted
fn unix_ms() -> i128 { std::time::SystemTime::now().duration_since(std::time::UNIX_EPOCH).map(|d| d.as_millis() as i128).unwrap_or(0) }
pub fn canon_record(f: &V, now_ms: i128) -> V {
    let l = match f { V::Array(l) => l, _ => return f.clone() };
    if l.len() == 3 {
        if let (V::Bulk(n), V::Bulk(_), V::Bulk(d)) = (&l[0], &l[1], &l[2]) {
            if n == b"PEXPIREAT" {
                return match std::str::from_utf8(d).ok().and_then(|t| t.parse::<i64>().ok()) {
                    Some(x) => V::Array(vec![l[0].clone(), l[1].clone(), V::Bulk(if now_ms < x as i128 { b"1".to_vec() } else { b"0".to_vec() })]),
                    None => f.clone() };
            }
            return f.clone();
        }
    }
    if l.len() >= 2 && matches!(&l[0], V::Bulk(n) if n == b"SREM") && l[2..].iter().all(|x| matches!(x, V::Bulk(_))) {
        let mut ms: Vec<Vec<u8>> = l[2..].iter().map(|x| match x { V::Bulk(b2) => b2.clone(), _ => vec![] }).collect();
        ms.sort();
        let mut o = vec![l[0].clone(), l[1].clone()]; o.extend(ms.into_iter().map(V::Bulk));
        return V::Array(o);
    }
    f.clone()
}

fn aof_read(r: &Runner, op: &[Tok]) -> (Vec<Tok>, Vec<Tok>) {
    let raw = read_aof(r);
    let (frames, complete) = parse_aof(&raw);
    let mut newop = op.to_vec(); if newop.len() > 1 { newop[1] = Tok::I(r.logical); }
    let now = unix_ms();
    // (a file that is not a sequence of command arrays is shown as it is)
    let canon_ok = complete && frames.iter().all(|f| matches!(f, V::Array(l) if !l.is_empty()));
    let frames: Vec<V> = if canon_ok { frames.iter().map(|f| canon_record(f, now)).collect() } else { frames };
    let bytes = if canon_ok { let mut w = vec![]; for f in &frames { f.wire(&mut w); } w } else { raw };
    let mut out = vec![bv(&bytes), i(if complete { 0 } else { 1 }), i(frames.len() as i64)];
    for f in &frames { f.enc(&mut out); }
    (newop, out)
}

fn aof_replay(r: &mut Runner, op: &[Tok]) -> (Vec<Tok>, Vec<Tok>) {
    let c = tok_int(&op[1]); let mode = tok_int(&op[3]); let k = tok_int(&op[4]) as usize;
    let mut pos = 5;
    let reqs = match dec_n(op, &mut pos, k) { Some(l) => l, None => return (op.to_vec(), vec![b("BADFRAME")]) };
    let mut newop = op[..pos].to_vec(); newop[2] = Tok::I(r.logical);
    let (cmds, _) = parse_aof(&read_aof(r));
    // the second server: fresh directory, no AOF, sweeper stopped
    let dir2 = scratch_dir();
    let srv2 = Srv::start(&SrvOpts { password: None, aof: false, dir: Some(dir2), keep_dir: false });
    let mut cl2 = match Client::connect(srv2.port) { Some(x) => x, None => { srv2.stop(false); return (newop, vec![b("NOCONN")]); } };
    ask(&mut cl2, &V::cmd(&[b"VERIF", b"SWEEP", b"PAUSE"]), 3000);
    let replies: Vec<V> = cmds.iter().map(|q| ask(&mut cl2, q, 3000)).collect();
    // oracles of the model's redo: the reply (SPOP, XADD *), or the f64 parses of a sorted-set command
    newop.push(i(replies.len() as i64));
    for (q, x) in cmds.iter().zip(replies.iter()) {
        match q { V::Array(parts) if is_zcmd(&req_name(q)) => zoracle(parts, &canon_full(q, x.clone())).enc(&mut newop), _ => x.enc(&mut newop) }
    }
    let live = match r.conns.get_mut(&c) { Some(cl) => dump(cl, &reqs), None => { srv2.stop(false); return (newop, vec![b("CLOSED")]); } };
    // the dump of the second server from a connection of its own (database 0, like the live dump)
    let repl = match Client::connect(srv2.port) { Some(mut cl3) => dump(&mut cl3, &reqs), None => vec![] };
    drop(cl2); srv2.stop(false);
    let agree = live == repl;
    let mut out = vec![i(agree as i64), i(replies.len() as i64)];
    if mode == 1 {
        for (q, x) in cmds.iter().zip(replies.into_iter()) { canon_full(q, x).enc(&mut out); }
        out.push(i(live.len() as i64));
        for x in &live { x.enc(&mut out); }
        for x in &repl { x.enc(&mut out); }
    } else {
        out.push(i(live.len() as i64));
        for (a, b2) in live.iter().zip(repl.iter()) { out.push(i((a == b2) as i64)); }
    }
    (newop, out)
}

/// the oracles the model's redo needs (the f64 value of the arguments of the sorted-set commands, the
/// result of ZINCRBY): from a redo of the same records on a server of its own
fn shadow_oracles(cmds: &[V]) -> Option<Vec<V>> {
    if !cmds.iter().any(|q| is_zcmd(&req_name(q))) { return Some(cmds.iter().map(|_| V::NullBulk).collect()); }
    let srv2 = Srv::start(&SrvOpts { password: None, aof: false, dir: Some(scratch_dir()), keep_dir: false });
    let mut cl2 = match Client::connect(srv2.port) { Some(x) => x, None => { srv2.stop(false); return None; } };
    ask(&mut cl2, &V::cmd(&[b"VERIF", b"SWEEP", b"PAUSE"]), 3000);
    let out = cmds.iter().map(|q| { let x = ask(&mut cl2, q, 3000);
        match q { V::Array(parts) if is_zcmd(&req_name(q)) => zoracle(parts, &canon_full(q, x)), _ => V::NullBulk } }).collect();
    drop(cl2); srv2.stop(false);
    Some(out)
}

/// returns (op, out, the server is now expected to be dead)
fn aof_restart(r: &mut Runner, op: &[Tok]) -> (Vec<Tok>, Vec<Tok>, bool) {
    let c = tok_int(&op[1]); let k = tok_int(&op[3]) as usize;
    let mut pos = 4;
    let reqs = match dec_n(op, &mut pos, k) { Some(l) => l, None => return (op.to_vec(), vec![b("BADFRAME")], false) };
    let mut newop = op[..pos].to_vec(); newop[2] = Tok::I(r.logical);
    let (cmds, _) = parse_aof(&read_aof(r));
    match shadow_oracles(&cmds) {
        Some(os) => { newop.push(i(os.len() as i64)); for o in &os { o.enc(&mut newop); } }
        None => return (newop, vec![b("NOCONN")], false),
    }
    r.conns.clear();
    let _ = r.srv.child.kill(); let _ = r.srv.child.wait();
    let _ = std::fs::remove_file(r.srv.dir.join(".ready"));
    let opts = SrvOpts { password: None, aof: true, dir: Some(r.srv.dir.clone()), keep_dir: true };
    let mut started = None;
    for _ in 0..3 { if let Some(s) = Srv::try_start(&opts) { started = Some(s); break; } }
    match started {
        None => (newop, vec![i(0)], true),
        Some(s) => {
            r.srv = s;
            match Client::connect(r.srv.port) {
                Some(mut cl) => {
                    ask(&mut cl, &V::cmd(&[b"VERIF", b"SWEEP", b"PAUSE"]), 3000);
                    let d = dump(&mut cl, &reqs);
                    r.conns.insert(c, cl);
                    let mut out = vec![i(1)]; for x in &d { x.enc(&mut out); }
                    (newop, out, false)
                }
                None => (newop, vec![b("NOCONN")], false),
            }
        }
    }
}

fn cmdq(r: &mut Runner, op: &[Tok]) -> (Vec<Tok>, Vec<Tok>) {
    let c = tok_int(&op[1]); let mut pos = 3;
    let req = match V::dec(op, &mut pos) { Some(q) => q, None => return (op.to_vec(), vec![b("BADFRAME")]) };
    let mut newop = op.to_vec(); newop[2] = Tok::I(r.logical);
    if let Some(cl) = r.conns.get_mut(&c) { let _ = ask(cl, &req, 400); }
    (newop, vec![])
}

/// the sorted-set commands whose model needs Rust's parse::<f64>() of the arguments (as in c04.rs run_tcp)
fn is_zcmd(name: &[u8]) -> bool {
    matches!(name, b"ZADD" | b"ZREM" | b"ZSCORE" | b"ZCARD" | b"ZRANK" | b"ZREVRANK" | b"ZRANGE" | b"ZREVRANGE" | b"ZRANGEBYSCORE"
                 | b"ZREVRANGEBYSCORE" | b"ZCOUNT" | b"ZINCRBY" | b"ZPOPMIN" | b"ZPOPMAX")
}
fn zoracle(parts: &[V], canon_reply: &V) -> V {
    let mut orc: Vec<V> = parts.iter().map(|p| match p {
        V::Bulk(t) => match String::from_utf8_lossy(t).parse::<f64>() { Ok(x) => V::Double(x), Err(_) => V::NullBulk }, _ => V::NullBulk }).collect();
    if req_name(&V::Array(parts.to_vec())) == b"ZINCRBY" { orc.push(match canon_reply { V::Double(x) => V::Double(*x), _ => V::NullBulk }); }
    V::Array(orc)
}
/// canonical reply of a command: srv.rs canon_reply, then score texts as bit patterns
fn canon_full(req: &V, reply: V) -> V {
    let r = canon_reply(&req_name(req), reply);
    match req { V::Array(parts) => crate::c04::canon_scores(parts, r), _ => r }
}

fn run_once(c: &Case) -> (Case, bool) {
    let dir = scratch_dir();
    let mut r = Runner::new(&SrvOpts { password: None, aof: true, dir: Some(dir), keep_dir: true });
    let mut out = Case { id: c.id.clone(), ops: vec![], outs: vec![] };
    let mut dead_ok = false;
    for op in &c.ops {
        let name = tok_bytes(&op[0]).to_vec();
        let (o2, res) = match &name[..] {
            b"AOFREAD" => aof_read(&r, op),
            b"AOFREPLAY" => aof_replay(&mut r, op),
            b"AOFRESTART" => { let (a, b2, d) = aof_restart(&mut r, op); dead_ok = d; (a, b2) }
            b"CMDQ" => cmdq(&mut r, op),
            b"CMD" => {
                let (mut o2, mut res) = r.op(op);
                let mut pos = 3;
                if let Some(V::Array(parts)) = V::dec(op, &mut pos) {
                    if is_zcmd(&req_name(&V::Array(parts.clone()))) {
                        let mut p2 = 0;
                        if let Some(reply) = V::dec(&res, &mut p2) {
                            if !matches!(&reply, V::Simple(q) if q == b"QUEUED") {
                                let reply = crate::c04::canon_scores(&parts, reply);
                                zoracle(&parts, &reply).enc(&mut o2);
                                res = vec![]; reply.enc(&mut res);
                            }
                        }
                    }
                }
                (o2, res)
            }
            _ => r.op(op),
        };
        out.ops.push(o2); out.outs.push(res);
    }
    let flaky = out.outs.iter().any(|o| *o == vec![b("TIMEOUT")] || *o == vec![b("NOCONN")]);
    let drift = (r.drift_bad && c.ops.iter().any(|o| matches!(o.first(), Some(Tok::B(n)) if n == b"SLEEP"))) || flaky;
    let alive = r.finish();
    if !alive && !dead_ok { out.ops.push(vec![b("ALIVE")]); out.outs.push(vec![i(0)]); }
    (out, drift)
}
/// a history disturbed by machine load (a timed-out reply, clock drift across a SLEEP) is run again
pub fn run(c: &Case) -> Case {
    let mut last = run_once(c);
    for _ in 0..2 { if !last.1 { break; } std::thread::sleep(Duration::from_millis(50)); last = run_once(c); }
    if last.1 { last.0.id = format!("{}-DISCARD", last.0.id); }
    last.0
}

// ---------------------------------------------------------------- property oracle
/// every command of ferrous's dispatch table that can change a database (Redis semantics)
const STATE_CHANGING: &[&[u8]] = &[b"SET", b"SETNX", b"SETEX", b"PSETEX", b"MSET", b"GETSET", b"APPEND", b"SETRANGE", b"INCR", b"DECR",
    b"INCRBY", b"DECRBY", b"DEL", b"EXPIRE", b"PEXPIRE", b"PERSIST", b"RENAME", b"RENAMENX", b"FLUSHDB", b"FLUSHALL", b"LPUSH", b"RPUSH",
    b"LPOP", b"RPOP", b"LSET", b"LTRIM", b"LREM", b"BLPOP", b"BRPOP", b"SADD", b"SREM", b"SPOP", b"HSET", b"HMSET", b"HDEL", b"HINCRBY",
    b"ZADD", b"ZREM", b"ZINCRBY", b"ZPOPMIN", b"ZPOPMAX", b"XADD", b"XTRIM", b"XDEL", b"XGROUP", b"XREADGROUP", b"XACK", b"XCLAIM",
    b"EVAL", b"EVALSHA"];

#[derive(Clone)]
struct Done { req: V, name: Vec<u8>, reply: Option<V>, db: i64, op: usize }

/// did the command change anything, judged from its own reply (Redis reply conventions)
fn took_effect(name: &[u8], reply: &Option<V>) -> bool {
    match reply {
        None => false,
        Some(V::Error(_)) => false,
        Some(V::Int(0)) => matches!(name, b"INCR" | b"DECR" | b"INCRBY" | b"DECRBY" | b"APPEND" | b"SETRANGE" | b"HINCRBY"),
        Some(V::NullBulk) => name == b"GETSET",
        Some(V::NullArray) => false,
        Some(V::Array(l)) if l.is_empty() => false,
        _ => true,
    }
}

/// the commands that reached process_normal_command, in execution order (direct ones and the
/// queued ones of every EXEC that ran), with the database they ran in
fn executed(c: &Case, outs: &[Vec<Tok>], upto: usize) -> Vec<Done> {
    use std::collections::HashMap;
    let mut done = vec![];
    let mut queue: HashMap<i128, Vec<V>> = HashMap::new();
    let mut db: HashMap<i128, i64> = HashMap::new();
    for (k, op) in c.ops.iter().enumerate().take(upto) {
        let name0 = match op.first() { Some(Tok::B(n)) => n.clone(), _ => continue };
        if name0 == b"CONN" { db.insert(tok_int(&op[1]), 0); queue.remove(&tok_int(&op[1])); continue; }
        if name0 == b"CLOSE" { queue.remove(&tok_int(&op[1])); continue; }
        if name0 != b"CMD" && name0 != b"CMDQ" { continue; }
        let conn = tok_int(&op[1]); let mut pos = 3;
        let req = match V::dec(op, &mut pos) { Some(q) => q, None => continue };
        let name = req_name(&req);
        let reply = if name0 == b"CMD" { outs.get(k).and_then(|o| { let mut p = 0; V::dec(o, &mut p) }) } else { None };
        if matches!(&reply, Some(V::Simple(s)) if s == b"QUEUED") { queue.entry(conn).or_default().push(req); continue; }
        let ok = !matches!(&reply, Some(V::Error(_)));
        match &name[..] {
            b"MULTI" | b"DISCARD" => { if ok { queue.remove(&conn); } continue; }
            b"WATCH" | b"UNWATCH" | b"AUTH" => continue,
            b"EXEC" => {
                let q = queue.remove(&conn).unwrap_or_default();
                if let Some(V::Array(reps)) = &reply {
                    let mut d = *db.get(&conn).unwrap_or(&0);
                    for (j, qreq) in q.into_iter().enumerate() {
                        let nm = req_name(&qreq);
                        let rep = reps.get(j).cloned();
                        done.push(Done { req: qreq.clone(), name: nm.clone(), reply: rep.clone(), db: d, op: k });
                        // a queued SELECT takes effect at EXEC (1ecc022): what follows runs in the new database
                        if nm == b"SELECT" && matches!(&rep, Some(V::Simple(_))) {
                            if let V::Array(l) = &qreq { if let Some(V::Bulk(a)) = l.get(1) { if let Ok(n) = String::from_utf8_lossy(a).parse::<i64>() { d = n; db.insert(conn, n); } } }
                        }
                    }
                }
                continue;
            }
            _ => {}
        }
        let d = *db.get(&conn).unwrap_or(&0);
        if name == b"SELECT" && ok {
            if let V::Array(l) = &req { if let Some(V::Bulk(a)) = l.get(1) { if let Ok(n) = String::from_utf8_lossy(a).parse::<i64>() { db.insert(conn, n); } } }
        }
        done.push(Done { req, name, reply, db: d, op: k });
    }
    done
}

/// comparison form of a record: PEXPIREAT without its deadline, SREM members sorted
fn cmp_form(f: &V) -> V {
    match canon_record(f, 0) {
        V::Array(l) if l.len() == 3 && matches!(&l[0], V::Bulk(n) if n == b"PEXPIREAT") => V::Array(l[..2].to_vec()),
        x => x,
    }
}
fn bulk(x: &[u8]) -> V { V::Bulk(x.to_vec()) }
fn arg(req: &V, j: usize) -> Option<Vec<u8>> { match req { V::Array(l) => match l.get(j) { Some(V::Bulk(a)) => Some(a.clone()), _ => None }, _ => None } }
fn has_opt(req: &V, names: &[&[u8]]) -> bool {
    match req { V::Array(l) => l.iter().skip(3).any(|a| matches!(a, V::Bulk(o) if names.iter().any(|n| o.eq_ignore_ascii_case(n)))), _ => false }
}

/// what a command that ran must have left in the file, and what it may have left (after the repairs
/// a8393c5 / f085462 / 98d0d1a / 293eff6): (records that must be there, records that may follow)
fn expected_records(d: &Done, scripts: &std::collections::HashMap<Vec<u8>, Vec<u8>>) -> (Vec<V>, Vec<V>, bool) {
    let parts = match &d.req { V::Array(l) => l.clone(), _ => return (vec![], vec![], false) };
    let eff = took_effect(&d.name, &d.reply);
    let key = parts.get(1).cloned().unwrap_or(V::NullBulk);
    match &d.name[..] {
        b"SPOP" => match &d.reply {
            Some(V::Bulk(m)) => (vec![V::Array(vec![bulk(b"SREM"), key, bulk(m)])], vec![], true),
            Some(V::Array(ms)) if !ms.is_empty() => { let mut l = vec![bulk(b"SREM"), key]; l.extend(ms.iter().cloned()); (vec![V::Array(l)], vec![], true) }
            _ => (vec![], vec![], true) },
        b"XADD" if parts.get(2) == Some(&bulk(b"*")) => match &d.reply {
            Some(V::Bulk(id)) => { let mut l = parts.clone(); l[2] = bulk(id); (vec![V::Array(l)], vec![], true) }
            _ => (vec![], vec![], true) },
        b"EVALSHA" => {
            let src = arg(&d.req, 1).and_then(|h| scripts.get(&h.to_ascii_lowercase()).cloned());
            match (src, parts.len() >= 3) {
                (Some(src), true) => { let mut l = vec![bulk(b"EVAL"), bulk(&src)]; l.extend(parts[2..].iter().cloned());
                                       if eff { (vec![V::Array(l)], vec![], true) } else { (vec![], vec![V::Array(l)], true) } }
                _ => (vec![], vec![], true) }
        }
        b"BLPOP" | b"BRPOP" => match &d.reply {
            Some(V::Array(l)) if l.len() == 2 => (vec![V::Array(vec![bulk(if d.name == b"BLPOP" { b"LPOP" } else { b"RPOP" }), l[0].clone()])], vec![], true),
            _ => (vec![], vec![], true) },
        _ => {
            let must = STATE_CHANGING.contains(&&d.name[..]) && eff;
            let rec = V::Array(vec![bulk(b"PEXPIREAT"), key.clone()]);
            let ok = !matches!(&d.reply, Some(V::Error(_)) | None);
            // the deadline record: certain after a successful SET with EX / PX, SETEX, PSETEX and an
            // EXPIRE / PEXPIRE of a positive time that answered 1; possible whenever the key keeps a deadline
            let positive = arg(&d.req, 2).and_then(|a| String::from_utf8_lossy(&a).parse::<i64>().ok()).map_or(false, |n| n > 0);
            let certain = ok && match &d.name[..] {
                b"SET" => matches!(&d.reply, Some(V::Simple(_))) && has_opt(&d.req, &[b"EX", b"PX"]),
                b"SETEX" | b"PSETEX" => matches!(&d.reply, Some(V::Simple(_))),
                b"EXPIRE" | b"PEXPIRE" => d.reply == Some(V::Int(1)) && positive,
                _ => false };
            let possible = ok && matches!(&d.name[..], b"SET" | b"SETEX" | b"PSETEX" | b"EXPIRE" | b"PEXPIRE") && matches!(key, V::Bulk(_));
            let mut m = if must { vec![d.req.clone()] } else { vec![] };
            let mut o = if must { vec![] } else { vec![d.req.clone()] };
            if certain { if m.is_empty() { m.push(d.req.clone()); o.clear(); } m.push(rec); } else if possible { o.push(rec); }
            (m, o, false)
        }
    }
}

/// Independent of the model, on the implementation's outputs:
///  * AOFREAD: the file ends on a frame boundary, every frame is a non-empty array, the records
///    are, in order, those of commands that were executed - as sent for the deterministic write
///    commands, by outcome for SPOP / XADD * / EVALSHA / blocking pops, followed by the deadline
///    record where the command left a deadline - and every executed state-changing command that
///    took effect is represented (once, in execution order, in the database it ran in);
///  * AOFREPLAY: the replayed server's dump equals the live server's dump;
///  * AOFRESTART: the restarted server comes up and answers the dump as before.
/// The only known class is expiry-unlogged (a history with a short time to live and a SLEEP).
pub fn judge(c: &Case, outs: &[Vec<Tok>]) -> Vec<String> {
    let mut fails = vec![];
    let blocking = c.id.contains("bk-");
    let slept = c.ops.iter().any(|o| matches!(o.first(), Some(Tok::B(n)) if n == b"SLEEP"));
    let mut last_live_dump: Option<Vec<V>> = None;
    for (k, op) in c.ops.iter().enumerate() {
        let out = match outs.get(k) { Some(o) => o, None => break };
        let name0 = match op.first() { Some(Tok::B(n)) => n.clone(), _ => continue };
        let done = || executed(c, outs, k);
        match &name0[..] {
            b"AOFREAD" => {
                if out.len() < 3 { fails.push(format!("FAIL case={} op={} AOFREAD gave no output", c.id, k)); continue; }
                if tok_int(&out[1]) != 0 { fails.push(format!("FAIL case={} op={} the file does not end on a frame boundary / is not RESP", c.id, k)); }
                let n = tok_int(&out[2]) as usize; let mut pos = 3;
                let logged = dec_n(out, &mut pos, n).unwrap_or_default();
                for f in &logged { if !matches!(f, V::Array(l) if !l.is_empty()) { fails.push(format!("FAIL case={} op={} a logged frame is not a command array", c.id, k)); } }
                let sel = |f: &V| -> Option<i64> { match f { V::Array(l) if l.len() == 2 && req_name(f) == b"SELECT" =>
                    match &l[1] { V::Bulk(a) => String::from_utf8_lossy(a).parse::<i64>().ok(), _ => None }, _ => None } };
                if blocking {
                    // the pops served to the waiting clients, as the clients saw them (BRECV), against the pop
                    // records of the file; the pushes and pops of the observer, as sent
                    let mut want: Vec<(Vec<u8>, Vec<u8>)> = vec![];
                    let mut asked: std::collections::HashMap<i128, std::collections::VecDeque<Vec<u8>>> = std::collections::HashMap::new();
                    for (j, o) in c.ops.iter().enumerate().take(k) {
                        match o.first() { Some(Tok::B(n)) if n == b"BSEND" => { let mut p = 4; if let Some(q) = V::dec(o, &mut p) { let nm = req_name(&q); let sent = outs.get(j).map_or(false, |r| matches!(r.first(), Some(Tok::I(0)))); if sent && (nm == b"BLPOP" || nm == b"BRPOP") { asked.entry(tok_int(&o[1])).or_default().push_back(nm); } } }
                            Some(Tok::B(n)) if n == b"BRECV" => { if let Some(res) = outs.get(j) { let mut p = 1; while p < res.len() { match V::dec(res, &mut p) {
                                Some(V::Array(l)) if l.len() == 2 => if let (V::Bulk(key), Some(nm)) = (&l[0], asked.get_mut(&tok_int(&o[1])).and_then(|q| q.pop_front())) { want.push((if nm == b"BLPOP" { b"LPOP".to_vec() } else { b"RPOP".to_vec() }, key.clone())); },
                                Some(_) => {}, None => break } } } }
                            _ => {} }
                    }
                    // expected: every push / pop the observer sent (write commands are logged as sent) and one
                    // pop record per served pop; compared as multisets here (the order is compared, byte for
                    // byte, with the model's log)
                    let mut expect: Vec<V> = done().iter().filter(|d| matches!(&d.name[..], b"RPUSH" | b"LPUSH" | b"LPOP" | b"RPOP")).map(|d| d.req.clone()).collect();
                    for (nm, key) in &want { expect.push(V::Array(vec![bulk(nm), bulk(key)])); }
                    let mut got: Vec<V> = logged.iter().filter(|f| sel(f).is_none()).cloned().collect();
                    let keyf = |f: &V| { let mut w = vec![]; f.wire(&mut w); w };
                    expect.sort_by_key(keyf); got.sort_by_key(keyf);
                    if expect != got { fails.push(format!("FAIL case={} op={} the file's records ({}) are not the observer's pushes and pops plus one pop per served blocking pop ({}, {} served)", c.id, k, got.len(), expect.len(), want.len())); }
                    continue;
                }
                let ex = done();
                // the scripts the cache can hold: SCRIPT LOAD and (0f156f9) EVAL sources, by digest
                let mut scripts: std::collections::HashMap<Vec<u8>, Vec<u8>> = std::collections::HashMap::new();
                let mut li = 0;
                // a logged SELECT that no client command accounts for sets the database of what follows
                let mut cur_db: i64 = 0;
                for d in &ex {
                    if d.name == b"SCRIPT" && arg(&d.req, 1).map_or(false, |a| a.eq_ignore_ascii_case(b"LOAD")) { if let Some(src) = arg(&d.req, 2) { scripts.insert(crate::c12::sha1_hex(&src), src); } }
                    if d.name == b"SCRIPT" && arg(&d.req, 1).map_or(false, |a| a.eq_ignore_ascii_case(b"FLUSH")) && !matches!(&d.reply, Some(V::Error(_))) { scripts.clear(); }
                    if d.name == b"EVAL" { if let Some(src) = arg(&d.req, 1) { scripts.insert(crate::c12::sha1_hex(&src), src); } }
                    if d.name == b"SELECT" { continue; }     // never logged: a SELECT in the file is the engine's record
                    let (must, may, by_outcome) = expected_records(d, &scripts);
                    for (rec, required) in must.iter().map(|x| (x, true)).chain(may.iter().map(|x| (x, false))) {
                        let want = cmp_form(rec);
                        while li < logged.len() && cmp_form(&logged[li]) != want { match sel(&logged[li]) { Some(n) => { cur_db = n; li += 1; } None => break } }
                        if li < logged.len() && cmp_form(&logged[li]) == want {
                            li += 1;
                            if d.db != cur_db && (STATE_CHANGING.contains(&&d.name[..]) || by_outcome) {
                                fails.push(format!("FAIL case={} op={} {} ran in database {} but the file places it in database {}", c.id, d.op, String::from_utf8_lossy(&d.name), d.db, cur_db));
                            }
                            continue;
                        }
                        if required {
                            fails.push(format!("FAIL case={} op={} {} took effect but its record {} is not in the file", c.id, d.op, String::from_utf8_lossy(&d.name), String::from_utf8_lossy(&req_name(rec))));
                        }
                    }
                }
                while li < logged.len() && sel(&logged[li]).is_some() { li += 1; }
                if li < logged.len() { fails.push(format!("FAIL case={} op={} logged command #{} was not executed at that point of the history", c.id, k, li)); }
            }
            b"AOFREPLAY" => {
                if out.is_empty() || !matches!(out[0], Tok::I(_)) { fails.push(format!("FAIL case={} op={} AOFREPLAY did not run", c.id, k)); continue; }
                // remember the live dump for a following AOFRESTART
                if tok_int(&op[3]) == 1 && out.len() > 2 {
                    let n = tok_int(&out[1]) as usize; let mut pos = 2;
                    if dec_n(out, &mut pos, n).is_some() && pos < out.len() {
                        let kk = tok_int(&out[pos]) as usize; pos += 1;
                        last_live_dump = dec_n(out, &mut pos, kk);
                    }
                }
                if tok_int(&out[0]) == 1 { continue; }
                // the one known class: a key passed its deadline between the live run and the redo, and a later
                // command of the history had built on it
                let class = if slept && c.id.starts_with("w-expiry") { "class=expiry-unlogged " } else { "" };
                fails.push(format!("FAIL case={} op={} {}the replayed dataset differs from the live one", c.id, k, class));
            }
            b"AOFRESTART" => {
                if out.is_empty() || !matches!(out[0], Tok::I(_)) { fails.push(format!("FAIL case={} op={} AOFRESTART did not run", c.id, k)); continue; }
                if tok_int(&out[0]) == 0 { fails.push(format!("FAIL case={} op={} the server does not start on its own append-only file", c.id, k)); continue; }
                let kk = tok_int(&op[3]) as usize; let mut pos = 1;
                let after = dec_n(out, &mut pos, kk).unwrap_or_default();
                let lost = match &last_live_dump { Some(before) => before.len() == after.len() && *before != after,
                    // without a previous dump: any executed effective write means the dataset was not empty
                    None => done().iter().any(|d| STATE_CHANGING.contains(&&d.name[..]) && took_effect(&d.name, &d.reply)) && after.iter().all(|x| matches!(x, V::Int(0) | V::Int(-2) | V::NullBulk | V::Error(_)) || matches!(x, V::Array(l) if l.is_empty()) || matches!(x, V::Simple(t) | V::Bulk(t) if t == b"none")) };
                // known class: a SET of the empty key, refused when it was sent, is accepted by the start-up replay
                let class = if done().iter().any(|d| (matches!(&d.name[..], b"SET" | b"INCR" | b"INCRBY") && arg(&d.req, 1).map_or(false, |a| a.is_empty()))
                                                        || matches!(&d.req, V::Array(l) if l.iter().any(|a| !matches!(a, V::Bulk(_))))) { "class=startup-executor-differs " } else { "" };
                if lost { fails.push(format!("FAIL case={} op={} {}the dataset after the restart is not the dataset before it", c.id, k, class)); }
            }
            _ => {}
        }
    }
    fails
}
