//! C12: scripts.  Scripts are terms of a small DSL printed to Lua in a rigid concrete syntax
//! (Model/Lua.v parse_script reads it back):
//!
//!   local r={}
//!   r[1]=redis.call("\083\069\084",KEYS[1],ARGV[1])
//!   table.sort(r[1])
//!   return r[1] | return r | return <literal>
//!
//! Case families: (tw-) twin histories: every command of the string/key/list/set/hash catalogue is run
//! directly on key set "a:*" and through EVAL (call or pcall; arguments as literals, KEYS[i], ARGV[i],
//! numbers) on the identical key set "b:*", in a selected database of {0,1,15}, followed by paired dumps;
//! (mc-) multi-call scripts with failing calls (abort / continue / effects persist); (rs-) return shapes;
//! (sb-) sandbox probes and blocked commands; (sh-) SCRIPT LOAD/EXISTS/FLUSH, EVALSHA, EVAL argument errors.
//! The judge compares each twin pair on the implementation's own outputs (reply of the script = reply of
//! the direct command; dumps of the two key sets equal) and names the known class when they differ.
use crate::c01;
use crate::c03;
use crate::resp::V;
use crate::rng::Rng;
use crate::srv::*;
use crate::tok::*;

// ---------------------------------------------------------------- SHA-1 (for EVALSHA digests)
pub fn sha1_hex(data: &[u8]) -> Vec<u8> {
    let mut h: [u32; 5] = [0x67452301, 0xEFCDAB89, 0x98BADCFE, 0x10325476, 0xC3D2E1F0];
    let mut m = data.to_vec();
    let bitlen = (data.len() as u64) * 8;
    m.push(0x80);
    while m.len() % 64 != 56 { m.push(0); }
    m.extend_from_slice(&bitlen.to_be_bytes());
    for chunk in m.chunks(64) {
        let mut w = [0u32; 80];
        for t in 0..16 { w[t] = u32::from_be_bytes([chunk[4 * t], chunk[4 * t + 1], chunk[4 * t + 2], chunk[4 * t + 3]]); }
        for t in 16..80 { w[t] = (w[t - 3] ^ w[t - 8] ^ w[t - 14] ^ w[t - 16]).rotate_left(1); }
        let (mut a, mut b, mut c, mut d, mut e) = (h[0], h[1], h[2], h[3], h[4]);
        for t in 0..80 {
            let (f, k) = match t { 0..=19 => ((b & c) | (!b & d), 0x5A827999u32), 20..=39 => (b ^ c ^ d, 0x6ED9EBA1), 40..=59 => ((b & c) | (b & d) | (c & d), 0x8F1BBCDC), _ => (b ^ c ^ d, 0xCA62C1D6) };
            let tmp = a.rotate_left(5).wrapping_add(f).wrapping_add(e).wrapping_add(k).wrapping_add(w[t]);
            e = d; d = c; c = b.rotate_left(30); b = a; a = tmp;
        }
        h[0] = h[0].wrapping_add(a); h[1] = h[1].wrapping_add(b); h[2] = h[2].wrapping_add(c); h[3] = h[3].wrapping_add(d); h[4] = h[4].wrapping_add(e);
    }
    let mut out = vec![];
    for x in h.iter() { out.extend(format!("{:08x}", x).as_bytes()); }
    out
}

// ---------------------------------------------------------------- the DSL and its printer
#[derive(Clone, Debug)]
pub enum E { Nil, True, False, Int(i128), Num(&'static str), NaN, Inf(bool), Str(Vec<u8>), Keys(usize), Argv(usize), Res(usize), Table(Vec<E>) }
#[derive(Clone, Debug)]
pub enum St { Call(bool, Vec<E>), Sort(usize) }
#[derive(Clone, Debug)]
pub struct Script { pub body: Vec<St>, pub ret: Option<E> }

fn lua_str(b: &[u8]) -> String { let mut s = String::from("\""); for c in b { s += &format!("\\{:03}", c); } s.push('"'); s }
fn pe(e: &E) -> String {
    match e {
        E::Nil => "nil".into(), E::True => "true".into(), E::False => "false".into(),
        E::Int(z) => z.to_string(), E::Num(t) => t.to_string(), E::NaN => "(0/0)".into(),
        E::Inf(false) => "(1/0)".into(), E::Inf(true) => "(-1/0)".into(), E::Str(b) => lua_str(b),
        E::Keys(i) => format!("KEYS[{}]", i), E::Argv(i) => format!("ARGV[{}]", i), E::Res(i) => format!("r[{}]", i),
        E::Table(l) => format!("{{{}}}", l.iter().map(pe).collect::<Vec<_>>().join(",")),
    }
}
pub fn print_script(s: &Script, trailing_nl: bool) -> Vec<u8> {
    let mut o = String::from("local r={}\n");
    let mut k = 0;
    for st in &s.body {
        match st {
            St::Call(pc, args) => { k += 1; o += &format!("r[{}]=redis.{}({})\n", k, if *pc { "pcall" } else { "call" }, args.iter().map(pe).collect::<Vec<_>>().join(",")); }
            St::Sort(i) => o += &format!("table.sort(r[{}])\n", i),
        }
    }
    match &s.ret { None => o += "return r", Some(e) => { o += "return "; o += &pe(e); } }
    if trailing_nl { o.push('\n'); }
    o.into_bytes()
}

fn eval_op(conn: i64, src: &[u8], keys: &[Vec<u8>], argv: &[Vec<u8>]) -> Vec<Tok> {
    let nk = keys.len().to_string().into_bytes();
    let mut a: Vec<&[u8]> = vec![b"EVAL", src, &nk];
    for k in keys { a.push(k); } for x in argv { a.push(x); }
    cmd_op(conn, &a)
}
fn note_op(words: &[&[u8]]) -> Vec<Tok> { let mut o = vec![b("NOTE")]; for w in words { o.push(bv(w)); } o }

// ---------------------------------------------------------------- twin histories
const PA: &[u8] = b"a:";
const PB: &[u8] = b"b:";
fn pref(p: &[u8], k: &[u8]) -> Vec<u8> { let mut v = p.to_vec(); v.extend_from_slice(k); v }

/// positions of the key arguments of a command
fn key_positions(name: &[u8], argc: usize) -> Vec<usize> {
    match name {
        b"DEL" | b"EXISTS" | b"MGET" | b"SUNION" | b"SINTER" | b"SDIFF" => (1..argc).collect(),
        b"MSET" => (1..argc).step_by(2).collect(),
        b"RENAME" | b"RENAMENX" => (1..argc.min(3)).collect(),
        b"PING" | b"ECHO" | b"DBSIZE" | b"FLUSHDB" | b"FLUSHALL" | b"RANDOMKEY" | b"NOSUCHCMD" => vec![],
        _ => if argc > 1 { vec![1] } else { vec![] },
    }
}
const UNORDERED: &[&[u8]] = &[b"SMEMBERS", b"SUNION", b"SINTER", b"SDIFF", b"HKEYS", b"HVALS", b"HGETALL", b"KEYS"];
/// commands not used in twin pairs: random outcomes, whole-database effects, server-killing inputs
fn twin_ok(c: &[Vec<u8>], _db: i64) -> bool {
    let name = c[0].to_ascii_uppercase();
    match &name[..] {
        b"RANDOMKEY" | b"SRANDMEMBER" | b"SPOP" | b"FLUSHDB" | b"FLUSHALL" | b"DBSIZE" => false,
        // a positive remaining time is clock-dependent and an EVAL reply is not canonicalised by command name:
        // TTL / PTTL run inside scripts only on keys without a deadline (mc- cases) and in the stored witness
        b"TTL" | b"PTTL" => false,
        // HGETALL flat pairs cannot be canonicalised after table.sort
        _ => true,
    }
}
fn canonical_int(t: &[u8]) -> Option<i128> {
    let s = std::str::from_utf8(t).ok()?; let z: i128 = s.parse().ok()?;
    if z.to_string() == s && z.abs() <= (1i128 << 53) { Some(z) } else { None }
}
const NUMS: &[&str] = &["1.5", "-0.25", "3.125", "0.5", "100.75"];

/// the script twin of a direct command: same command on the "b:" keys
fn twin_script(r: &mut Rng, c: &[Vec<u8>], pcall: bool) -> (Script, Vec<Vec<u8>>, Vec<Vec<u8>>, bool) {
    let name = c[0].to_ascii_uppercase();
    let kp = key_positions(&name, c.len());
    let (mut keys, mut argv) = (vec![], vec![]);
    let mut args = vec![E::Str(c[0].clone())];
    for j in 1..c.len() {
        let iskey = kp.contains(&j);
        let val = if iskey { pref(PB, &c[j]) } else { c[j].clone() };
        let e = match r.below(10) {
            0..=3 => if iskey { keys.push(val); E::Keys(keys.len()) } else { argv.push(val); E::Argv(argv.len()) },
            4 | 5 => match canonical_int(&val) { Some(z) if !iskey => E::Int(z), _ => E::Str(val) },
            6 => match NUMS.iter().find(|t| t.as_bytes() == &val[..]) { Some(t) if !iskey => E::Num(t), _ => E::Str(val) },
            _ => E::Str(val),
        };
        args.push(e);
    }
    let sorted = UNORDERED.contains(&&name[..]);
    let mut body = vec![St::Call(pcall, args)];
    if sorted { body.push(St::Sort(1)); }
    (Script { body, ret: Some(E::Res(1)) }, keys, argv, sorted)
}

fn seed_ops(conn: i64, ops: &mut Vec<Vec<Tok>>, r: &mut Rng, used: &mut Vec<Vec<u8>>) {
    for p in [PA, PB] {
        let k = |x: &[u8]| pref(p, x);
        // one rng state for both prefixes: clone so that both sets get the same content
        let mut q = r.clone();
        if q.chance(7, 8) { ops.push(cmd_op(conn, &[b"RPUSH", &k(b"l1"), b"a", b"b", b"c", b"a"])); }
        if q.chance(7, 8) { ops.push(cmd_op(conn, &[b"SADD", &k(b"s1"), b"a", b"b", b"10"])); }
        if q.chance(7, 8) { ops.push(cmd_op(conn, &[b"SADD", &k(b"s2"), b"b", b"c"])); }
        if q.chance(7, 8) { ops.push(cmd_op(conn, &[b"HSET", &k(b"h1"), b"f1", b"10", b"f2", b"abc"])); }
        if q.chance(3, 4) { ops.push(cmd_op(conn, &[b"SET", &k(b"k1"), b"10"])); }
        if q.chance(1, 2) { ops.push(cmd_op(conn, &[b"SET", &k(b"str1"), b"hello", b"EX", b"1000"])); }
        if q.chance(1, 3) { ops.push(cmd_op(conn, &[b"SET", &k(b"k2"), b"9007199254740993"])); }
        if q.chance(1, 2) { ops.push(cmd_op(conn, &[b"XADD", &k(b"x1"), b"1-1", b"f", b"v"])); ops.push(cmd_op(conn, &[b"XADD", &k(b"x1"), b"2-5", b"g", b"w"])); }
        if p == PB { *r = q; }
    }
    for k in [&b"l1"[..], b"s1", b"s2", b"h1", b"k1", b"str1", b"k2", b"x1"] { if !used.contains(&k.to_vec()) { used.push(k.to_vec()); } }
}

fn dump_pair(conn: i64, ops: &mut Vec<Vec<Tok>>, used: &[Vec<u8>], db0: bool) {
    for k in used {
        for probe in [&b"TYPE"[..], b"GET", b"PTTL", b"LRANGE", b"SMEMBERS", b"HGETALL", b"XRANGE"] {
            ops.push(note_op(&[b"dump"]));
            for p in [PA, PB] {
                let kk = pref(p, k);
                if probe == b"LRANGE" { ops.push(cmd_op(conn, &[probe, &kk, b"0", b"-1"])); }
                else if probe == b"XRANGE" { ops.push(cmd_op(conn, &[probe, &kk, b"-", b"+"])); }
                else { ops.push(cmd_op(conn, &[probe, &kk])); }
            }
        }
    }
    let _ = db0; ops.push(note_op(&[b"dump"])); ops.push(cmd_op(conn, &[b"KEYS", b"a:*"])); ops.push(cmd_op(conn, &[b"KEYS", b"b:*"]));
    ops.push(cmd_op(conn, &[b"KEYS", b"*"]));
    ops.push(cmd_op(conn, &[b"DBSIZE"]));
}

const SIDS: &[&[u8]] = &[b"1-1", b"2-0", b"2-5", b"5-3", b"0-1", b"abc", b"18446744073709551615-1", b"7-18446744073709551615", b"0-0", b"9-9"];
const SCOUNTS: &[&[u8]] = &[b"0", b"1", b"2", b"10", b"+2", b"x", b"-1", b"18446744073709551615"];
/// stream commands of the executor's catalogue (explicit IDs only: `XADD key *` needs the clock oracle)
fn stream_cmd(r: &mut Rng) -> Vec<Vec<u8>> {
    let v = |x: &[u8]| x.to_vec();
    let k = v(*r.pick(&[&b"x1"[..], b"x1", b"x2", b"k1", b"nokey"]));
    let id = |r: &mut Rng| v(*r.pick(SIDS));
    match r.below(14) {
        0..=4 => vec![v(b"XADD"), k, id(r), v(*r.pick(&[&b"f"[..], b"g", b""])), v(*r.pick(c01::VALUES))],
        5 => match r.below(4) { 0 => vec![v(b"XADD"), k, id(r)], 1 => vec![v(b"XADD"), k, id(r), v(b"f")], 2 => vec![v(b"XADD"), k, v(b"MAXLEN"), v(b"2"), id(r), v(b"f"), v(b"v")], _ => vec![v(b"xadd"), k, id(r), v(b"f"), v(b"v"), v(b"g")] },
        6 => vec![v(b"XLEN"), k],
        // range bounds: "-" / "+" only where they belong; odd ID texts are C15/C16 ground (Streams.v is being reworked there)
        7 | 8 => { let rev = r.chance(1, 2);
                   let wf = |r: &mut Rng| v(*r.pick(&[&b"1-1"[..], b"2-0", b"2-5", b"5-3", b"0-1", b"9-9", b"0-0", b"18446744073709551615-1", b"abc"]));
                   let lo = if r.chance(1, 3) { v(b"-") } else { wf(r) }; let hi = if r.chance(1, 3) { v(b"+") } else { wf(r) };
                   let mut c = if rev { vec![v(b"XREVRANGE"), k, hi, lo] } else { vec![v(b"XRANGE"), k, lo, hi] };
                   match r.below(6) { 0 | 1 => { c.push(v(b"COUNT")); c.push(v(*r.pick(SCOUNTS))); } 2 => c.push(v(b"COUNT")), 3 => { c.push(v(b"count")); c.push(v(b"1")); c.push(v(b"extra")); } _ => {} } c }
        9 => vec![v(b"XRANGE"), k, v(b"-"), v(b"+")],
        // ID text of XDEL: well-formed IDs and plain garbage only (the parsing of odd ID texts is C15/C16 ground)
        10 => { let mut c = vec![v(b"XDEL"), k]; for _ in 0..(1 + r.below(2)) { c.push(v(*r.pick(&[&b"1-1"[..], b"2-0", b"2-5", b"5-3", b"0-1", b"9-9", b"abc"]))); } c }
        11 | 12 => match r.below(5) { 0 => vec![v(b"XTRIM"), k, v(b"MAXLEN"), v(*r.pick(SCOUNTS))], 1 => vec![v(b"XTRIM"), k, v(b"MAXLEN"), v(b"~"), v(b"1")],
                                      2 => vec![v(b"XTRIM"), k, v(b"maxlen"), v(b"="), v(b"2")], 3 => vec![v(b"XTRIM"), k, v(b"MINID"), v(b"1")], _ => vec![v(b"XTRIM"), k, v(b"MAXLEN"), v(b"1"), v(b"extra")] },
        _ => vec![v(b"XDEL"), k],
    }
}

fn gen_direct(r: &mut Rng, g3: &mut c03::Gen) -> Vec<Vec<u8>> {
    if r.chance(1, 6) { return stream_cmd(r); }
    if r.chance(1, 2) { c01::gen_cmd(r) } else { g3.r = r.fork(); g3.cmd() }
}

fn twin_case(r: &mut Rng, id: usize) -> Case {
    let db: i64 = *r.pick(&[0i64, 0, 1, 15]);
    let dbs = db.to_string().into_bytes();
    let mut ops = vec![conn_op(1), cmd_op(1, &[b"VERIF", b"SWEEP", b"PAUSE"])];
    if db != 0 || r.chance(1, 3) { ops.push(cmd_op(1, &[b"SELECT", &dbs])); }
    let mut used: Vec<Vec<u8>> = vec![];
    seed_ops(1, &mut ops, r, &mut used);
    let mut g3 = c03::Gen::new(r.fork());
    let n = 3 + r.below(22);
    for _ in 0..n {
        let c = gen_direct(r, &mut g3);
        if !twin_ok(&c, db) { continue; }
        let name = c[0].to_ascii_uppercase();
        let kp = key_positions(&name, c.len());
        for &j in &kp { if !used.contains(&c[j]) && used.len() < 14 { used.push(c[j].clone()); } }
        let direct: Vec<Vec<u8>> = c.iter().enumerate().map(|(j, a)| if kp.contains(&j) { pref(PA, a) } else { a.clone() }).collect();
        let pcall = r.chance(1, 3);
        let (sc, keys, argv, sorted) = twin_script(r, &c, pcall);
        ops.push(note_op(&[b"twin", if pcall { b"pcall" } else { b"call" }, if sorted { b"sorted" } else { b"plain" }]));
        let refs: Vec<&[u8]> = direct.iter().map(|x| &x[..]).collect();
        ops.push(cmd_op(1, &refs));
        ops.push(eval_op(1, &print_script(&sc, r.chance(1, 2)), &keys, &argv));
    }
    dump_pair(1, &mut ops, &used, db == 0);
    Case { id: format!("tw-{}", id), ops, outs: vec![] }
}

// ---------------------------------------------------------------- multi-call scripts
fn simple_call(r: &mut Rng, keys: &mut Vec<Vec<u8>>) -> Vec<E> {
    let s = |x: &[u8]| E::Str(x.to_vec());
    let k = |r: &mut Rng, keys: &mut Vec<Vec<u8>>| -> E {
        let name: &[u8] = *r.pick(&[&b"k1"[..], b"k2", b"l1", b"s1", b"h1", b"nokey"]);
        if r.chance(1, 3) { keys.push(name.to_vec()); E::Keys(keys.len()) } else { E::Str(name.to_vec()) }
    };
    match r.below(16) {
        0 => vec![s(b"SET"), k(r, keys), s(*r.pick(c01::VALUES))],
        1 => vec![s(b"GET"), k(r, keys)],
        2 => vec![s(b"INCR"), k(r, keys)],
        3 => vec![s(b"INCRBY"), k(r, keys), E::Int(*r.pick(&[1i128, -1, 5, 9007199254740992]))],
        4 => vec![s(b"RPUSH"), k(r, keys), s(b"x"), s(b"y")],
        5 => vec![s(b"LRANGE"), k(r, keys), E::Int(0), E::Int(-1)],
        6 => vec![s(b"SADD"), k(r, keys), s(b"m")],
        7 => vec![s(b"HSET"), k(r, keys), s(b"f"), s(b"v")],
        8 => vec![s(b"DEL"), k(r, keys)],
        9 => vec![s(b"MGET"), k(r, keys), k(r, keys), k(r, keys)],
        10 => vec![s(b"HMGET"), k(r, keys), s(b"f1"), s(b"nofield"), s(b"f2")],
        11 => vec![s(b"LPOP"), k(r, keys)],
        12 => vec![s(b"NOSUCHCMD"), k(r, keys)],
        13 => vec![s(b"GET")],
        14 => if r.chance(1, 2) { vec![s(b"APPEND"), k(r, keys), s(b"zz")] } else { vec![s(if r.chance(1, 2) { b"TTL" } else { b"PTTL" }), k(r, keys)] },
        _ => match r.below(9) { 6 => vec![s(b"SET"), k(r, keys), s(b"kept"), s(*r.pick(&[&b"KEEPTTL"[..], b"GET", b"keepttl"]))],
                                7 => vec![s(b"SET"), k(r, keys), s(b"w"), s(b"KEEPTTL"), s(b"EX"), s(b"10")], 8 => vec![s(*r.pick(&[&b"DBSIZE"[..], b"FLUSHDB", b"RANDOMKEY"])), s(b"extra")],
                                0 => vec![s(b"DBSIZE")], 1 => vec![s(b"KEYS"), s(*r.pick(&[&b"k1"[..], b"h?", b"zz*", b"l[1]"]))], 2 => vec![s(b"FLUSHDB")],
                                3 => vec![s(b"DECRBY"), k(r, keys), s(b"-9223372036854775808")], 4 => vec![s(b"EXPIRE"), k(r, keys), s(*r.pick(&[&b"0"[..], b"-1", b"x"]))],
                                _ => vec![s(b"TYPE"), k(r, keys)] },
    }
}
fn multi_case(r: &mut Rng, id: usize) -> Case {
    let db: i64 = *r.pick(&[0i64, 1, 15]);
    let dbs = db.to_string().into_bytes();
    let mut ops = vec![conn_op(1), conn_op(2), cmd_op(1, &[b"VERIF", b"SWEEP", b"PAUSE"]), cmd_op(1, &[b"SELECT", &dbs]), cmd_op(2, &[b"SELECT", &dbs])];
    ops.push(cmd_op(1, &[b"RPUSH", b"l1", b"a", b"b"])); ops.push(cmd_op(1, &[b"SADD", b"s1", b"a"]));
    ops.push(cmd_op(1, &[b"HSET", b"h1", b"f1", b"1", b"f2", b"2"])); ops.push(cmd_op(1, &[b"SET", b"k1", b"5"]));
    for _ in 0..(1 + r.below(4)) {
        let mut keys = vec![]; let mut body = vec![];
        let n = 1 + r.below(5) as usize;
        for _ in 0..n { body.push(St::Call(r.chance(1, 2), simple_call(r, &mut keys))); }
        let ret = match r.below(5) { 0 | 1 => None, 2 => Some(E::Res(n)), 3 => Some(E::Res(1 + r.below(n as u64 + 1) as usize)), _ => Some(E::Table(vec![E::Res(1), E::Str(b"|".to_vec()), E::Res(n)])) };
        let c = 1 + r.below(2) as i64;
        // sometimes inside MULTI/EXEC: the script then runs from the queue (exec_queue -> exec_db -> exec_scripts)
        let queued = r.chance(1, 5);
        if queued { ops.push(cmd_op(c, &[b"MULTI"])); ops.push(cmd_op(c, &[b"INCR", b"cnt"])); }
        ops.push(eval_op(c, &print_script(&Script { body, ret }, true), &keys, &[]));
        if queued { ops.push(cmd_op(c, &[b"EXEC"])); }
        // the other connection observes the state between scripts
        ops.push(cmd_op(3 - c, &[b"MGET", b"k1", b"k2", b"nokey"]));
    }
    for k in [&b"k1"[..], b"k2", b"l1", b"s1", b"h1", b"nokey"] {
        ops.push(cmd_op(2, &[b"TYPE", k])); ops.push(cmd_op(2, &[b"GET", k])); ops.push(cmd_op(2, &[b"LRANGE", k, b"0", b"-1"]));
        ops.push(cmd_op(2, &[b"SMEMBERS", k])); ops.push(cmd_op(2, &[b"HGETALL", k]));
    }
    ops.push(cmd_op(2, &[b"KEYS", b"*"])); ops.push(cmd_op(2, &[b"SELECT", b"0"])); ops.push(cmd_op(2, &[b"KEYS", b"*"]));
    Case { id: format!("mc-{}", id), ops, outs: vec![] }
}

// ---------------------------------------------------------------- return shapes
fn lit(r: &mut Rng, depth: u32) -> E {
    match r.below(if depth == 0 { 13 } else { 16 }) {
        0 => E::Nil, 1 => E::True, 2 => E::False,
        3 => E::Int(*r.pick(&[0i128, 1, -1, 42, 9007199254740992, 9007199254740993, -9007199254740993, 9223372036854775807,
                             -9223372036854775808, 9223372036854775808, 18446744073709551616, -9223372036854777856, 4611686018427387905])),
        4 => E::Num(*r.pick(NUMS)), 5 => E::NaN, 6 => E::Inf(r.chance(1, 2)),
        7 | 8 => E::Str(r.pick(c01::VALUES).to_vec()), 9 => E::Str(b"\xff\xfe".to_vec()),
        10 => E::Keys(1 + r.below(3) as usize), 11 => E::Argv(1 + r.below(3) as usize), 12 => E::Res(1 + r.below(3) as usize),
        _ => { let n = r.below(4); E::Table((0..n).map(|_| lit(r, depth - 1)).collect()) }
    }
}
fn shape_case(r: &mut Rng, id: usize) -> Case {
    let mut ops = vec![conn_op(1), cmd_op(1, &[b"VERIF", b"SWEEP", b"PAUSE"])];
    ops.push(cmd_op(1, &[b"RPUSH", b"l1", b"a", b"", b"c"])); ops.push(cmd_op(1, &[b"SET", b"big", b"9007199254740993"]));
    ops.push(cmd_op(1, &[b"SET", b"bin", b"\x00\xffx"])); ops.push(cmd_op(1, &[b"HSET", b"h1", b"f1", b"1"]));
    for _ in 0..(2 + r.below(8)) {
        let s = |x: &[u8]| E::Str(x.to_vec());
        let calls: Vec<Vec<E>> = vec![
            match r.below(5) { 0 => vec![s(b"MGET"), s(b"big"), s(b"nokey"), s(b"bin")], 1 => vec![s(b"LRANGE"), s(b"l1"), E::Int(0), E::Int(-1)],
                               2 => vec![s(b"INCRBY"), s(b"big"), E::Int(0)], 3 => vec![s(b"GET"), s(b"bin")], _ => vec![s(b"SMEMBERS"), s(b"nokey")] },
            match r.below(4) { 0 => vec![s(b"HMGET"), s(b"h1"), s(b"nf"), s(b"f1")], 1 => vec![s(b"SET"), s(b"t"), s(b"v")], 2 => vec![s(b"LPUSH"), s(b"big"), s(b"x")], _ => vec![s(b"PING")] },
        ];
        let body: Vec<St> = calls.into_iter().map(|a| St::Call(true, a)).collect();
        let ret = if r.chance(1, 6) { None } else { Some(lit(r, 2)) };
        let keys: Vec<Vec<u8>> = (0..r.below(3)).map(|_| r.pick(&[&b"k"[..], b"\xffk", b"", b"caf\xc3\xa9", b"\xe2\x82", b"\xed\xa0\x80"]).to_vec()).collect();
        let argv: Vec<Vec<u8>> = (0..r.below(3)).map(|_| r.pick(c01::VALUES).to_vec()).collect();
        ops.push(eval_op(1, &print_script(&Script { body, ret }, r.chance(1, 2)), &keys, &argv));
    }
    Case { id: format!("rs-{}", id), ops, outs: vec![] }
}

// ---------------------------------------------------------------- sandbox probes, blocked commands
pub const PROBE_GLOBALS: &[&str] = &["os", "io", "debug", "package", "require", "dofile", "loadfile", "load", "loadstring", "string", "table",
    "math", "coroutine", "print", "pcall", "error", "setmetatable", "getfenv", "setfenv", "collectgarbage", "module", "newproxy", "unpack",
    "redis", "KEYS", "ARGV", "nosuchglobal", "jit", "ffi", "bit", "cjson", "struct", "cmsgpack", "_G", "rawset", "select", "xpcall", "gcinfo"];
pub const BLOCKED: &[&str] = &["EVAL", "EVALSHA", "SCRIPT", "SELECT", "AUTH", "QUIT", "CLIENT", "MULTI", "EXEC", "DISCARD", "WATCH", "UNWATCH",
    "BLPOP", "BRPOP", "BZPOPMIN", "BZPOPMAX", "SUBSCRIBE", "UNSUBSCRIBE", "PSUBSCRIBE", "PUNSUBSCRIBE", "PUBSUB", "MONITOR", "RESET",
    "CONFIG", "SHUTDOWN", "DEBUG", "ACL"];
fn sandbox_case(r: &mut Rng, id: usize) -> Case {
    let mut ops = vec![conn_op(1), cmd_op(1, &[b"SET", b"k1", b"v"])];
    for _ in 0..12 {
        match r.below(4) {
            0 | 1 => { let g = *r.pick(PROBE_GLOBALS); ops.push(eval_op(1, format!("return {} == nil", g).as_bytes(), &[], &[])); }
            2 => {
                let f = *r.pick(&["status_reply", "error_reply", "sha1hex", "log", "setresp", "breakpoint", "replicate_commands"]);
                ops.push(eval_op(1, format!("return redis.{}(\"OK\")", f).as_bytes(), &[], &[]));
            }
            _ => {
                let c = *r.pick(BLOCKED); let c = if r.chance(1, 3) { c.to_lowercase() } else { c.to_string() };
                let args = vec![E::Str(c.into_bytes()), E::Str(b"k1".to_vec()), E::Int(0)];
                let body = vec![St::Call(true, vec![E::Str(b"APPEND".to_vec()), E::Str(b"k1".to_vec()), E::Str(b"+".to_vec())]), St::Call(r.chance(1, 2), args),
                                St::Call(false, vec![E::Str(b"APPEND".to_vec()), E::Str(b"k1".to_vec()), E::Str(b"!".to_vec())])];
                ops.push(eval_op(1, &print_script(&Script { body, ret: None }, true), &[], &[]));
            }
        }
    }
    ops.push(cmd_op(1, &[b"GET", b"k1"])); ops.push(cmd_op(1, &[b"PING"]));
    Case { id: format!("sb-{}", id), ops, outs: vec![] }
}

// ---------------------------------------------------------------- SCRIPT / EVALSHA / EVAL argument checks
fn sha_case(r: &mut Rng, id: usize) -> Case {
    let mut ops = vec![conn_op(1), conn_op(2), cmd_op(1, &[b"VERIF", b"SWEEP", b"PAUSE"])];
    let s = |x: &[u8]| E::Str(x.to_vec());
    let scripts: Vec<Vec<u8>> = vec![
        print_script(&Script { body: vec![St::Call(false, vec![s(b"SET"), E::Keys(1), E::Argv(1)]), St::Call(false, vec![s(b"GET"), E::Keys(1)])], ret: None }, true),
        print_script(&Script { body: vec![St::Call(true, vec![s(b"INCR"), E::Keys(1)])], ret: Some(E::Res(1)) }, false),
        print_script(&Script { body: vec![], ret: Some(E::Table(vec![E::Keys(1), E::Keys(2), E::Argv(1), E::Argv(2)])) }, true),
        b"return os == nil".to_vec(),
        print_script(&Script { body: vec![St::Call(false, vec![s(b"RPUSH"), E::Keys(1), E::Argv(1), E::Argv(2)]), St::Call(false, vec![s(b"LRANGE"), E::Keys(1), E::Int(0), E::Int(-1)])], ret: Some(E::Res(2)) }, true),
    ];
    let mut loaded: Vec<usize> = vec![];
    for _ in 0..(6 + r.below(14)) {
        let c = 1 + r.below(2) as i64;
        let k = r.below(scripts.len() as u64) as usize;
        let sha = sha1_hex(&scripts[k]);
        let keys: Vec<Vec<u8>> = (0..r.below(3)).map(|_| r.pick(&[&b"k1"[..], b"k2", b"l1", b"\xffk"]).to_vec()).collect();
        let argv: Vec<Vec<u8>> = (0..r.below(3)).map(|_| r.pick(&[&b"1"[..], b"v", b"", b"\xfe"]).to_vec()).collect();
        let nk = keys.len().to_string().into_bytes();
        match r.below(20) {
            0..=3 => { ops.push(cmd_op(c, &[b"SCRIPT", if r.chance(1, 4) { b"load" } else { b"LOAD" }, &scripts[k]])); if !loaded.contains(&k) { loaded.push(k); } }
            4..=9 => {
                let shau = sha.to_ascii_uppercase();
                let h: &[u8] = if r.chance(1, 8) { &shau } else { &sha };
                let mut a: Vec<&[u8]> = vec![if r.chance(1, 5) { b"evalsha" } else { b"EVALSHA" }, h, &nk];
                for x in &keys { a.push(x); } for x in &argv { a.push(x); }
                ops.push(cmd_op(c, &a));
            }
            10 | 11 => ops.push(eval_op(c, &scripts[k], &keys, &argv)),
            12 => { let other = sha1_hex(b"not loaded"); ops.push(cmd_op(c, &[b"SCRIPT", b"EXISTS", &sha, &other, b"xyz"])); }
            13 => if r.chance(1, 3) { ops.push(cmd_op(c, &[b"SCRIPT", b"FLUSH"])); loaded.clear(); } else { ops.push(cmd_op(c, &[b"SCRIPT", b"KILL"])); },
            14 => ops.push(cmd_op(c, &[b"SELECT", *r.pick(&[&b"0"[..], b"1", b"15"])])),
            15 => { // EVAL / EVALSHA argument errors
                match r.below(9) {
                    0 => ops.push(cmd_op(c, &[b"EVAL", &scripts[2]])),
                    1 => ops.push(cmd_op(c, &[b"EVAL", &scripts[2], b"-1"])),
                    2 => ops.push(cmd_op(c, &[b"EVAL", &scripts[2], b"x"])),
                    3 => ops.push(cmd_op(c, &[b"EVAL", &scripts[2], b"3", b"a"])),
                    4 => ops.push(cmd_frame_op(c, &V::Array(vec![V::Bulk(b"EVAL".to_vec()), V::Bulk(scripts[2].clone()), V::Int(1), V::Bulk(b"a".to_vec()), V::Bulk(b"b".to_vec())]))),
                    5 => ops.push(cmd_frame_op(c, &V::Array(vec![V::Bulk(b"EVAL".to_vec()), V::Bulk(scripts[2].clone()), V::Bulk(b"1".to_vec()), V::Int(5)]))),
                    6 => ops.push(cmd_op(c, &[b"EVAL", &scripts[2], b"18446744073709551615", b"a"])),
                    7 => ops.push(cmd_op(c, &[b"EVAL", b"return (", b"0"])),
                    _ => ops.push(cmd_op(c, &[b"EVAL", b"\xff", b"0"])),
                }
            }
            16 => match r.below(6) {
                0 => ops.push(cmd_op(c, &[b"SCRIPT"])), 1 => ops.push(cmd_op(c, &[b"SCRIPT", b"LOAD"])), 2 => ops.push(cmd_op(c, &[b"SCRIPT", b"NOPE"])),
                3 => ops.push(cmd_op(c, &[b"SCRIPT", b"EXISTS"])), 4 => ops.push(cmd_op(c, &[b"SCRIPT", b"LOAD", b"return ("])), _ => ops.push(cmd_op(c, &[b"EVALSHA", &sha])),
            },
            _ => ops.push(cmd_op(c, &[b"GET", b"k1"])),
        }
    }
    for d in [&b"0"[..], b"1", b"15"] {
        ops.push(cmd_op(2, &[b"SELECT", d])); ops.push(cmd_op(2, &[b"KEYS", b"*"]));
        for k in [&b"k1"[..], b"k2"] { ops.push(cmd_op(2, &[b"GET", k])); }
        ops.push(cmd_op(2, &[b"LRANGE", b"l1", b"0", b"-1"]));
    }
    Case { id: format!("sh-{}", id), ops, outs: vec![] }
}

// ---------------------------------------------------------------- lazy expiry seen from scripts (logical clock, sweeper paused)
/// spell a command name in lower, upper or mixed case
fn spell(r: &mut Rng, name: &[u8]) -> Vec<u8> {
    match r.below(3) { 0 => name.to_ascii_lowercase(), 1 => name.to_ascii_uppercase(),
                       _ => name.iter().enumerate().map(|(i, c)| if i % 2 == 0 { c.to_ascii_uppercase() } else { c.to_ascii_lowercase() }).collect() }
}
/// a direct keyspace command and the same through redis.call (same database, same keys: both are reads)
fn lx_pair(r: &mut Rng, ops: &mut Vec<Vec<Tok>>, c: i64, cmd: &[&[u8]]) {
    let pcall = r.chance(1, 3);
    let name = spell(r, cmd[0]);
    let mut args = vec![E::Str(name)];
    for a in &cmd[1..] { args.push(match canonical_int(a) { Some(z) if r.chance(1, 2) => E::Int(z), _ => E::Str(a.to_vec()) }); }
    let sorted = cmd[0] == b"KEYS";
    let mut body = vec![St::Call(pcall, args)];
    if sorted { body.push(St::Sort(1)); }
    // the script goes first half of the time: a direct keyspace command sent before it would already
    // have purged the keys that are past their deadline
    let script_first = r.chance(1, 2);
    ops.push(note_op(&[if script_first { b"twinr" } else { b"twin" }, if pcall { b"pcall" } else { b"call" }, if sorted { b"sorted" } else { b"plain" }]));
    let ev = eval_op(c, &print_script(&Script { body, ret: Some(E::Res(1)) }, r.chance(1, 2)), &[], &[]);
    if script_first { ops.push(ev); ops.push(cmd_op(c, cmd)); } else { ops.push(cmd_op(c, cmd)); ops.push(ev); }
}
fn lazy_case(r: &mut Rng, id: usize) -> Case {
    let db: i64 = *r.pick(&[0i64, 1, 15]);
    let dbs = db.to_string().into_bytes();
    let other: i64 = *r.pick(&[2i64, 7]);
    let others = other.to_string().into_bytes();
    let mut ops = vec![conn_op(1), conn_op(2), cmd_op(1, &[b"VERIF", b"SWEEP", b"PAUSE"]), cmd_op(1, &[b"SELECT", &dbs]), cmd_op(2, &[b"SELECT", &others])];
    // keys with deadlines at 200 / 400 ms of the logical clock, and keys without
    let keep = r.below(3);                      // 0, 1 or 2 keys that never expire
    if keep >= 1 { ops.push(cmd_op(1, &[b"SET", b"stay", b"v"])); }
    if keep >= 2 { ops.push(cmd_op(1, &[b"RPUSH", b"lstay", b"a"])); }
    ops.push(cmd_op(1, &[b"SET", b"e2", b"v", b"PX", b"200"]));
    ops.push(cmd_op(1, &[b"SET", b"e4", b"v", b"PX", b"400"]));
    if r.chance(1, 2) { ops.push(cmd_op(1, &[b"RPUSH", b"le2", b"a", b"b"])); ops.push(cmd_op(1, &[b"PEXPIRE", b"le2", b"200"])); }
    if r.chance(1, 2) { ops.push(cmd_op(1, &[b"HSET", b"he4", b"f", b"v"])); ops.push(cmd_op(1, &[b"PEXPIRE", b"he4", b"400"])); }
    if r.chance(1, 2) { ops.push(cmd_op(2, &[b"SET", b"o2", b"v", b"PX", b"200"])); ops.push(cmd_op(2, &[b"SET", b"ostay", b"v"])); }
    for _round in 0..3 {
        let n = 2 + r.below(5);
        for _ in 0..n {
            let c = if r.chance(1, 4) { 2 } else { 1 };
            match r.below(9) {
                0 | 1 => lx_pair(r, &mut ops, c, &[b"DBSIZE"]),
                2 | 3 => { let pat: &[u8] = *r.pick(&[&b"*"[..], b"e*", b"*2", b"?e*"]); lx_pair(r, &mut ops, c, &[b"KEYS", pat]) }
                4 => { let pat: &[u8] = *r.pick(&[&b"e2"[..], b"e4", b"stay", b"le2", b"he4"]); lx_pair(r, &mut ops, c, &[b"SCAN", b"0", b"MATCH", pat, b"COUNT", b"100"]) }
                5 => { let k: &[u8] = *r.pick(&[&b"e2"[..], b"e4", b"le2", b"he4", b"stay", b"nokey"]);
                       match r.below(3) { 0 => lx_pair(r, &mut ops, c, &[b"TYPE", k]), 1 => lx_pair(r, &mut ops, c, &[b"EXISTS", k, b"e2", b"stay"]), _ => lx_pair(r, &mut ops, c, &[b"GET", k]) } }
                6 => { let pat: &[u8] = *r.pick(&[&b"e2"[..], b"o2", b"ostay"]); lx_pair(r, &mut ops, c, &[b"scan", b"0", b"COUNT", b"1000", b"MATCH", pat]) }
                7 => lx_pair(r, &mut ops, c, &[b"SCAN", b"0", b"MATCH", b"e4", b"COUNT", b"50", b"TYPE", b"string"]),
                _ => lx_pair(r, &mut ops, c, &[b"DBSIZE"]),
            }
        }
        ops.push(sleep_op(300));
    }
    // after every deadline: RANDOMKEY is deterministic when at most one key is left
    if keep <= 1 { lx_pair(r, &mut ops, 1, &[b"RANDOMKEY"]); }
    lx_pair(r, &mut ops, 1, &[b"DBSIZE"]); lx_pair(r, &mut ops, 1, &[b"KEYS", b"*"]); lx_pair(r, &mut ops, 2, &[b"DBSIZE"]);
    ops.push(cmd_op(1, &[b"VERIF", b"INDEX", &dbs]));
    Case { id: format!("lx-{}", id), ops, outs: vec![] }
}

pub fn gen(seed: u64, n: usize, _tier: &str) -> Vec<Case> {
    let mut r = Rng::new(seed);
    let mut cases = vec![];
    for id in 0..n {
        cases.push(match id % 12 { 0..=4 => twin_case(&mut r, id), 5 | 6 => multi_case(&mut r, id), 7 => shape_case(&mut r, id), 8 => sandbox_case(&mut r, id), 9 => sha_case(&mut r, id), _ => lazy_case(&mut r, id) });
    }
    cases
}

pub fn run(c: &Case) -> Case { run_case(c, &SrvOpts::default()) }

// ---------------------------------------------------------------- judge: twin pairs on the implementation's outputs
fn dec_reply(out: &[Tok]) -> Option<V> { let mut p = 0; V::dec(out, &mut p) }
fn cmd_of(op: &[Tok]) -> Option<Vec<V>> {
    if op.len() < 4 || tok_bytes(&op[0]) != b"CMD" { return None; }
    let mut p = 3; match V::dec(op, &mut p) { Some(V::Array(l)) => Some(l), _ => None }
}
fn strip(v: &V) -> V {
    match v {
        V::Bulk(b) if b.starts_with(PA) || b.starts_with(PB) => V::Bulk(b[2..].to_vec()),
        V::Array(l) => V::Array(l.iter().map(strip).collect()),
        x => x.clone(),
    }
}
fn through_double(i: i64) -> i64 { let f = i as f64; if f >= 9.223372036854775807e18 { i64::MAX } else { f as i64 } }
#[derive(Clone, PartialEq)] enum L { Nil, Int(i64), Str(Vec<u8>), Table(Vec<L>), Err(Vec<u8>), Abort(Vec<u8>) }
fn lossy(b: &[u8]) -> Vec<u8> { String::from_utf8_lossy(b).into_owned().into_bytes() }
/// what THIS implementation's conversions make of a reply (used only to name the class of a difference)
fn impl_to_lua(v: &V, pcall: bool) -> L {
    match v {
        V::Simple(b) => L::Str(lossy(b)), V::Bulk(b) => L::Str(b.clone()), V::NullBulk | V::NullArray => L::Nil, V::Int(i) => L::Int(through_double(*i)),
        V::Error(m) => if pcall { L::Err(m.clone()) } else { L::Abort(m.clone()) },
        V::Array(l) => { let mut o = vec![]; for x in l { match impl_to_lua(x, pcall) { L::Abort(m) => return L::Abort(m), y => o.push(y) } } L::Table(o) }
        _ => L::Nil,
    }
}
fn impl_to_resp(l: &L) -> V {
    match l {
        L::Nil => V::NullBulk, L::Int(i) => V::Int(*i), L::Str(s) => V::Bulk(s.clone()), L::Abort(m) | L::Err(m) => V::Error(m.clone()),
        L::Table(t) => V::Array(t.iter().take_while(|x| **x != L::Nil).map(impl_to_resp).collect()),
    }
}
fn has_nil(v: &V) -> bool { match v { V::Array(l) => l.iter().any(|x| matches!(x, V::NullBulk | V::NullArray) || has_nil(x)), _ => false } }

fn std_view(v: &V) -> V {
    // the standard conversion is the identity except that integers travel as Lua numbers (doubles)
    match v { V::Int(i) => V::Int(through_double(*i)), V::Array(l) => V::Array(l.iter().map(std_view).collect()), x => x.clone() }
}
fn sort_bulks(v: V) -> V {
    match v { V::Array(mut l) => { l.sort_by(|a, b| match (a, b) { (V::Bulk(x), V::Bulk(y)) => x.cmp(y), _ => std::cmp::Ordering::Equal }); V::Array(l) } x => x }
}

pub fn judge(c: &Case, outs: &[Vec<Tok>]) -> Vec<String> {
    let mut fails = vec![];
    if !(c.id.starts_with("tw-") || c.id.starts_with("lx-")) { return fails; }
    let mut k = 0;
    while k < c.ops.len() {
        let op = &c.ops[k];
        if tok_bytes(&op[0]) == b"NOTE" && op.len() >= 2 && k + 2 < c.ops.len().min(outs.len()) {
            let kind = tok_bytes(&op[1]).to_vec();
            let rev = kind == b"twinr";
            let (di, si) = if rev { (k + 2, k + 1) } else { (k + 1, k + 2) };
            let kind = if rev { b"twin".to_vec() } else { kind };
            if let (Some(d), Some(s)) = (dec_reply(&outs[di]), dec_reply(&outs[si])) {
                if kind == b"twin" {
                    let pcall = tok_bytes(&op[2]) == b"pcall";
                    let sorted = op.len() > 3 && tok_bytes(&op[3]) == b"sorted";
                    // the property: the script answers what the direct command answers
                    let want = strip(&std_view(&if sorted { sort_bulks(d.clone()) } else { d.clone() }));
                    let ss = strip(&s);
                    if want != ss {
                        // what this implementation's conversions make of the direct reply (incl. table.sort)
                        let via = { let l = impl_to_lua(&d, pcall);
                                    let l = if sorted { match l { L::Table(t) if t.iter().all(|x| matches!(x, L::Str(_))) => { let mut t = t; t.sort_by(|a, b| match (a, b) { (L::Str(x), L::Str(y)) => x.cmp(y), _ => std::cmp::Ordering::Equal }); L::Table(t) }
                                                                  L::Err(m) => L::Err(m), L::Abort(m) => L::Abort(m), _ => L::Abort(b"ERR".to_vec()) } } else { l };
                                    strip(&impl_to_resp(&l)) };
                        // the classes pinned by the repository's own tests
                        let cls: Option<&'static str> =
                            if via == ss { if matches!(d, V::Simple(_)) { Some("lua-status-as-bulk") } else if has_nil(&d) { Some("lua-nil-truncates") } else { None } } else { None };
                        match cls {
                            Some(cl) => fails.push(format!("FAIL case={} op={} class={} twin reply differs", c.id, k + 2, cl)),
                            None => fails.push(format!("FAIL case={} op={} twin reply differs: direct {:?} script {:?}", c.id, k + 2, want, ss)),
                        }
                    }
                } else if kind == b"dump" && strip(&d) != strip(&s) {
                    fails.push(format!("FAIL case={} op={} twin state differs: {:?} vs {:?}", c.id, k + 2, strip(&d), strip(&s)));
                }
            }
            k += 3;
        } else { k += 1; }
    }
    fails
}
