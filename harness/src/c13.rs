//! C13: blocking pops never lose, duplicate or strand elements or clients.
//! Histories of 2-4 clients (BCONN/BSEND/BRECV/BCLOSE: requests are written without waiting for a reply,
//! the event loop is sequenced through the VERIF ITER hook, the registry is dumped through VERIF BLOCKING
//! after every step) and an observer connection (CMD), on a logical clock with a 300 ms grid.
use crate::resp::*;
use crate::rng::Rng;
use crate::srv::*;
use crate::tok::*;
use std::collections::HashMap;

const LKEYS: &[&[u8]] = &[b"q", b"r", b"m"];
const OBS: i64 = 9;
const GRID: i64 = 600;

fn cmdv(args: &[&[u8]]) -> V { V::cmd(args) }
fn cmdo(args: &[Vec<u8>]) -> V { V::Array(args.iter().map(|a| V::Bulk(a.clone())).collect()) }

struct G { r: Rng, next_el: u32, nkeys: usize, maybe_str: Vec<Vec<u8>> }
impl G {
    fn key(&mut self) -> Vec<u8> { LKEYS[self.r.below(self.nkeys as u64) as usize].to_vec() }
    fn els(&mut self, n: usize) -> Vec<Vec<u8>> { (0..n).map(|_| { self.next_el += 1; format!("e{}", self.next_el).into_bytes() }).collect() }
    fn push(&mut self) -> V {
        let mut a: Vec<Vec<u8>> = vec![if self.r.chance(1, 2) { b"LPUSH".to_vec() } else { b"RPUSH".to_vec() }];
        a.push(if self.r.chance(1, 14) { b"s".to_vec() } else { self.key() });
        let n = match self.r.below(6) { 0 | 1 | 2 => 1, 3 | 4 => 2, _ => 3 };
        a.extend(self.els(n));
        cmdo(&a)
    }
    /// a push made by a script (the DSL syntax of C12 that the model parses): EVAL <script> 1 key element
    fn script_push(&mut self) -> V {
        let name: &[u8] = if self.r.chance(1, 2) { b"LPUSH" } else { b"RPUSH" };
        let mut lit = String::from("\"");
        for c in name { lit += &format!("\\{:03}", c); }
        lit.push('"');
        let src = format!("local r={{}}\nr[1]=redis.call({},KEYS[1],ARGV[1])\nreturn r[1]", lit);
        // not on a key that may hold a string by now: the error code of a failing redis.call is C12's subject
        // (Model/Lua.v), here the script only has to push
        let k = self.key();
        if self.maybe_str.contains(&k) { return self.push(); }
        let e = self.els(1);
        cmdo(&[b"EVAL".to_vec(), src.into_bytes(), b"1".to_vec(), k, e[0].clone()])
    }
    fn pop(&mut self) -> V {
        let k = if self.r.chance(1, 14) { b"s".to_vec() } else { self.key() };
        cmdo(&[if self.r.chance(1, 2) { b"LPOP".to_vec() } else { b"RPOP".to_vec() }, k])
    }
    fn timeout(&mut self) -> Vec<u8> {
        match self.r.below(24) {
            0..=8 => b"0".to_vec(),
            9..=13 => b"0.3".to_vec(),
            14..=18 => b"0.9".to_vec(),
            19 => b"0.0".to_vec(),
            20 => b"-0".to_vec(),
            _ => self.r.pick(&[&b"-1"[..], b"nan", b"inf", b"1e10", b"abc", b"", b"-0.5", b"1e300"]).to_vec(),
        }
    }
    fn bpop(&mut self) -> V {
        let mut a: Vec<Vec<u8>> = vec![if self.r.chance(1, 2) { b"BLPOP".to_vec() } else { b"BRPOP".to_vec() }];
        let nk = match self.r.below(10) { 0..=4 => 1, 5..=7 => 2, 8 => 3, _ => 0 };
        for _ in 0..nk { a.push(if self.r.chance(1, 16) { b"s".to_vec() } else { self.key() }); }
        a.push(self.timeout());
        if self.r.chance(1, 40) { return V::Array(vec![V::Bulk(a[0].clone()), V::Int(1), V::Bulk(b"0".to_vec())]); }   // non-bulk key
        cmdo(&a)
    }
}

pub fn gen(seed: u64, n: usize, _tier: &str) -> Vec<Case> {
    let mut cases = vec![];
    let mut root = Rng::new(seed);
    for id in 0..n {
        let mut g = G { r: root.fork(), next_el: 0, nkeys: 2 + (id % 2), maybe_str: vec![] };
        let nc = 2 + g.r.below(3) as i64;
        let mut ops: Vec<Vec<Tok>> = vec![conn_op(OBS)];
        for c in 1..=nc { ops.push(bconn_op(c)); }
        ops.push(cmd_op(OBS, &[b"SET", b"s", b"str"]));
        let mut open = vec![true; 6];
        // now and then one client works in database 1
        if g.r.chance(1, 6) { let c = 1 + g.r.below(nc as u64) as i64; ops.push(bsend_op(c, &[cmdv(&[b"SELECT", b"1"])])); ops.push(brecv_op(c)); }
        let mut sleeps = 0; let mut closes = 0; let mut since = 0;
        // one history in eight starts with two registrations that expire in the SAME deadline scan (a repeated key:
        // the scans run every iteration, so two clients never expire together) in front of a client that waits
        // longer: get_expired_clients removes several entries of one queue by index
        if id % 8 == 5 {
            let k = g.key();
            let op = if g.r.chance(1, 2) { b"BLPOP".to_vec() } else { b"BRPOP".to_vec() };
            ops.push(bsend_op(1, &[cmdo(&[op.clone(), k.clone(), k.clone(), b"0.3".to_vec()])]));
            ops.push(bsend_op(2, &[cmdo(&[op.clone(), k.clone(), if g.r.chance(1, 2) { b"0".to_vec() } else { b"0.9".to_vec() }])]));
            if nc >= 3 && g.r.chance(1, 2) { ops.push(bsend_op(3, &[cmdo(&[op, k.clone(), b"0".to_vec()])])); }
            ops.push(bsleep_op(GRID)); sleeps += 1;
            ops.push(brecv_op(1)); ops.push(brecv_op(2));
            ops.push(vec![b("BDUMP"), i(0)]);
        }
        let steps = 8 + g.r.below(28);
        for _ in 0..steps {
            let c = 1 + g.r.below(nc as u64) as i64;
            if !open[c as usize] { continue; }
            since += 1;
            if since > 9 && sleeps < 6 { ops.push(bsleep_op(GRID)); sleeps += 1; since = 0; }
            match g.r.below(40) {
                0..=10 => { let q = g.bpop(); ops.push(bsend_op(c, &[q])); if g.r.chance(1, 2) { ops.push(brecv_op(c)); } }
                11..=17 => { let q = g.push(); ops.push(bsend_op(c, &[q])); if g.r.chance(2, 3) { ops.push(brecv_op(c)); } }
                18..=20 => { let q = g.push(); ops.push(cmd_frame_op(OBS, &q)); }
                21 | 22 => { let q = g.pop(); ops.push(bsend_op(c, &[q])); if g.r.chance(2, 3) { ops.push(brecv_op(c)); } }
                23 => { let q = g.pop(); ops.push(cmd_frame_op(OBS, &q)); }
                24 | 25 => {
                    // pipelined push + pop on one key in one write (the pop takes the element before the wake-up runs)
                    let k = g.key(); let e = g.els(2);
                    let mut b = vec![cmdo(&[b"LPUSH".to_vec(), k.clone(), e[0].clone()]), cmdo(&[b"LPOP".to_vec(), k.clone()])];
                    if g.r.chance(1, 3) { b.push(cmdo(&[b"RPUSH".to_vec(), k.clone(), e[1].clone()])); }
                    if g.r.chance(1, 3) { b.push(cmdo(&[b"LLEN".to_vec(), k.clone()])); }
                    ops.push(bsend_op(c, &b)); ops.push(brecv_op(c));
                }
                26 | 27 => {
                    // pushes (and sometimes a pop) inside MULTI/EXEC, in one write or one by one
                    let mut b = vec![cmdv(&[b"MULTI"])];
                    for _ in 0..(1 + g.r.below(3)) { b.push(match g.r.below(10) { 0 | 1 => g.pop(), 2 => g.bpop(), _ => g.push() }); }
                    b.push(cmdv(&[b"EXEC"]));
                    if g.r.chance(1, 2) { ops.push(bsend_op(c, &b)); } else { for q in &b { ops.push(bsend_op(c, &[q.clone()])); } }
                    ops.push(brecv_op(c));
                }
                28..=31 if sleeps < 6 => { ops.push(bsleep_op(GRID)); sleeps += 1; since = 0; }
                32 if closes < 2 => { ops.push(bclose_op(c)); open[c as usize] = false; closes += 1; }
                33 | 34 => ops.push(brecv_op(c)),
                35 => {
                    // a key the clients wait on becomes a string for a while, or is deleted
                    let k = g.key();
                    match g.r.below(3) {
                        0 => { ops.push(cmd_op(OBS, &[b"SETNX", &k, b"x"])); g.maybe_str.push(k.clone()); }
                        _ => { ops.push(cmd_op(OBS, &[b"LRANGE", &k, b"0", b"-1"])); ops.push(cmd_op(OBS, &[b"DEL", &k])); g.maybe_str.retain(|x| x != &k); }
                    }
                }
                36 => {
                    // requests written behind a blocking call in the SAME write: they wait until the connection is
                    // unblocked (939522b; class pipelined-behind-block before)
                    // (the call in front cannot time out: what waits behind it would run at its deadline,
                    // between two instants of the logical clock, racing with the other deadlines)
                    let mut q1 = g.bpop();
                    if let V::Array(l) = &mut q1 { if let Some(V::Bulk(t)) = l.last_mut() { if t == b"0.3" || t == b"0.9" { *t = b"0".to_vec(); } } }
                    let q2 = if g.r.chance(1, 2) { g.push() } else { g.bpop() };
                    ops.push(bsend_op(c, &[q1, q2])); if g.r.chance(1, 2) { ops.push(brecv_op(c)); }
                }
                37 => { ops.push(bsend_op(c, &[cmdv(&[b"LLEN", &g.key()])])); ops.push(brecv_op(c)); }
                39 => { let q = g.script_push(); if g.r.chance(1, 2) { ops.push(cmd_frame_op(OBS, &q)); } else { ops.push(bsend_op(c, &[q])); ops.push(brecv_op(c)); } }
                38 => {
                    // the key of a wake-up under way turns into a string before the wake-up runs
                    let k = g.key(); let e = g.els(1);
                    let b = vec![cmdo(&[b"RPUSH".to_vec(), k.clone(), e[0].clone()]), cmdo(&[b"LPOP".to_vec(), k.clone()]), cmdo(&[b"SETNX".to_vec(), k.clone(), b"x".to_vec()])];
                    g.maybe_str.push(k.clone());
                    ops.push(bsend_op(c, &b)); ops.push(brecv_op(c));
                }
                _ => { let q = g.bpop(); ops.push(bsend_op(c, &[q])); }
            }
        }
        if g.r.chance(1, 2) && sleeps < 7 { ops.push(bsleep_op(GRID)); }
        // every connection is read once more - also the ones closed above: a BCLOSE is skipped at run time when the
        // connection has requests waiting, and what it receives later must be seen by the judge
        for c in 1..=nc { ops.push(brecv_op(c)); }
        ops.push(vec![b("BDUMP"), i(0)]);
        for db in 0..2 {
            ops.push(cmd_op(OBS, &[b"SELECT", if db == 0 { b"0" } else { b"1" }]));
            for k in LKEYS.iter().chain([&b"s"[..]].iter()) { ops.push(cmd_op(OBS, &[b"LRANGE", k, b"0", b"-1"])); ops.push(cmd_op(OBS, &[b"TYPE", k])); }
            ops.push(cmd_op(OBS, &[b"KEYS", b"*"]));
        }
        cases.push(Case { id: format!("blk-{}", id), ops, outs: vec![] });
    }
    cases.extend(gen_exec_atomic());
    cases.push(gen_overtake());
    cases
}

/// the witness of the class stolen-wakeup-overtakes (repaired e464ce3; Props/C13.v c13_fifo_overtake_fixed), kept
/// as a regression case: client 2 blocks on r, then client 1 on q and r; one batch pushes to q, pops q and
/// pushes y to r; client 1's wake-up finds q empty.  It used to look at its other key and take y although
/// client 2 blocked on r first; now it pops nothing, client 2 is served [r, y] by its own wake-up and client 1
/// keeps waiting on q and r in its old place (second BDUMP).
pub fn gen_overtake() -> Case {
    let bl = |keys: &[&[u8]]| -> V { let mut a: Vec<Vec<u8>> = vec![b"BLPOP".to_vec()]; for k in keys { a.push(k.to_vec()); } a.push(b"0".to_vec()); cmdo(&a) };
    let mut ops: Vec<Vec<Tok>> = vec![conn_op(OBS), bconn_op(1), bconn_op(2), bconn_op(3)];
    ops.push(bsend_op(2, &[bl(&[b"r"])]));
    ops.push(bsend_op(1, &[bl(&[b"q", b"r"])]));
    ops.push(vec![b("BDUMP"), i(0)]);
    ops.push(bsend_op(3, &[cmdv(&[b"RPUSH", b"q", b"x"]), cmdv(&[b"LPOP", b"q"]), cmdv(&[b"RPUSH", b"r", b"y"])]));
    ops.push(brecv_op(3)); ops.push(brecv_op(1)); ops.push(brecv_op(2));
    ops.push(vec![b("BDUMP"), i(0)]);
    ops.push(cmd_op(OBS, &[b"LRANGE", b"r", b"0", b"-1"]));
    Case { id: "overtake-0".into(), ops, outs: vec![] }
}

/// EXEC is one step for the clients that wait on its keys too (C07): with one or two clients blocked on
/// a list, a transaction pushes to it and then reads / pops it again; the waiters are served after the
/// EXEC, from what the transaction left.  Deterministic; run by the checks of C07 and C13.
pub fn gen_exec_atomic() -> Vec<Case> {
    let mut cases = vec![];
    let bl = |name: &[u8], keys: &[&[u8]]| -> V { let mut a: Vec<Vec<u8>> = vec![name.to_vec()]; for k in keys { a.push(k.to_vec()); } a.push(b"0".to_vec()); cmdo(&a) };
    let txs: Vec<Vec<V>> = vec![
        vec![cmdv(&[b"RPUSH", b"q", b"a"]), cmdv(&[b"LLEN", b"q"])],
        vec![cmdv(&[b"RPUSH", b"q", b"a", b"b", b"c"]), cmdv(&[b"LLEN", b"q"]), cmdv(&[b"LRANGE", b"q", b"0", b"-1"]), cmdv(&[b"LPOP", b"q"]), cmdv(&[b"LLEN", b"q"])],
        vec![cmdv(&[b"LPUSH", b"q", b"a"]), cmdv(&[b"LPOP", b"q"]), cmdv(&[b"RPUSH", b"q", b"b"])],
        vec![cmdv(&[b"RPUSH", b"r", b"x"]), cmdv(&[b"RPUSH", b"q", b"a"]), cmdv(&[b"LLEN", b"r"]), cmdv(&[b"LLEN", b"q"])],
        // a push made by a script, in the DSL syntax the model parses (see script_push)
        vec![cmdo(&[b"EVAL".to_vec(), b"local r={}\nr[1]=redis.call(\"\\082\\080\\085\\083\\072\",KEYS[1],ARGV[1])\nreturn r[1]".to_vec(), b"1".to_vec(), b"q".to_vec(), b"a".to_vec()]), cmdv(&[b"LLEN", b"q"])],
        vec![cmdv(&[b"RPUSH", b"q", b"a"]), cmdv(&[b"RPOP", b"q"]), cmdv(&[b"LLEN", b"q"])],
    ];
    let mut id = 0;
    for tx in &txs {
        for waiters in 0..3 {
            for one_write in 0..2 {
                let mut ops: Vec<Vec<Tok>> = vec![conn_op(OBS), bconn_op(1), bconn_op(2), bconn_op(3)];
                ops.push(cmd_op(OBS, &[b"SET", b"s", b"str"]));
                match waiters {
                    0 => ops.push(bsend_op(1, &[bl(b"BLPOP", &[b"q"])])),
                    1 => { ops.push(bsend_op(1, &[bl(b"BLPOP", &[b"q"])])); ops.push(bsend_op(2, &[bl(b"BRPOP", &[b"q"])])); }
                    _ => { ops.push(bsend_op(1, &[bl(b"BRPOP", &[b"r", b"q"])])); ops.push(bsend_op(2, &[bl(b"BLPOP", &[b"q", b"r"])])); }
                }
                ops.push(vec![b("BDUMP"), i(0)]);
                let mut b2 = vec![cmdv(&[b"MULTI"])]; b2.extend(tx.iter().cloned()); b2.push(cmdv(&[b"EXEC"]));
                if one_write == 1 { ops.push(bsend_op(3, &b2)); } else { for q in &b2 { ops.push(bsend_op(3, &[q.clone()])); } }
                ops.push(brecv_op(3));
                ops.push(brecv_op(1)); ops.push(brecv_op(2));
                ops.push(vec![b("BDUMP"), i(0)]);
                // whoever is still waiting is served by a plain push
                ops.push(cmd_op(OBS, &[b"RPUSH", b"q", b"y", b"z"]));
                ops.push(brecv_op(1)); ops.push(brecv_op(2)); ops.push(brecv_op(3));
                ops.push(vec![b("BDUMP"), i(0)]);
                for k in LKEYS.iter().chain([&b"s"[..]].iter()) { ops.push(cmd_op(OBS, &[b"LRANGE", k, b"0", b"-1"])); ops.push(cmd_op(OBS, &[b"TYPE", k])); }
                ops.push(cmd_op(OBS, &[b"KEYS", b"*"]));
                cases.push(Case { id: format!("blkexec-{}", id), ops, outs: vec![] }); id += 1;
            }
        }
    }
    cases
}

pub fn run(c: &Case) -> Case { run_case(c, &SrvOpts::default()) }

// ---------------------------------------------------------------- property oracle (independent of the model)
#[derive(Clone)]
struct Req { name: Vec<u8>, args: Vec<Vec<u8>>, t: i128, oms: i128, db: i64, queued: bool }

fn bulks(v: &V) -> Option<Vec<Vec<u8>>> {
    match v { V::Array(l) => l.iter().map(|x| match x { V::Bulk(b) => Some(b.clone()), _ => None }).collect(), _ => None }
}
fn is_block(name: &[u8]) -> bool { name == b"BLPOP" || name == b"BRPOP" }

/// the multiset equation on the implementation's outputs: every element of an acknowledged push is still in
/// its list at the end or was returned to exactly one client; nothing is returned twice or invented;
/// nil never answers a wait-forever call nor arrives before the deadline; no more replies than requests
pub fn judge(c: &Case, outs: &[Vec<Tok>]) -> Vec<String> {
    let mut fails: Vec<String> = vec![];
    let mut pend: HashMap<i128, Vec<Req>> = HashMap::new();       // requests without a reply yet, oldest first
    let mut txq: HashMap<i128, Vec<Req>> = HashMap::new();        // queued in MULTI
    let mut dbof: HashMap<i128, i64> = HashMap::new();
    let mut sent: HashMap<Vec<u8>, usize> = HashMap::new();       // element -> times written in a push
    let mut acked: Vec<(Vec<u8>, usize)> = vec![];                // elements of acknowledged pushes (op index)
    let mut got: Vec<(Vec<u8>, usize)> = vec![];                  // elements returned to clients
    let mut remaining: Vec<Vec<u8>> = vec![];
    let mut deleted: Vec<Vec<u8>> = vec![];
    let mut blocked_close = false; let mut behind_block = false;
    let mut send_multi: HashMap<i128, bool> = HashMap::new();    // MULTI written, EXEC/DISCARD not yet (a queued blocking pop does not block)
    let mut recv_multi: HashMap<i128, bool> = HashMap::new();    // MULTI acknowledged: replies come strictly in request order
    let last_bsend = c.ops.iter().rposition(|o| matches!(o.first(), Some(Tok::B(n)) if n == b"BSEND" || n == b"BCLOSE")).unwrap_or(0);

    // one reply `v` to request `rq`, seen at op `ix` (logical time `t`)
    fn account(rq: &Req, v: &V, ix: usize, t: i128, cid: &str, fails: &mut Vec<String>, acked: &mut Vec<(Vec<u8>, usize)>,
               got: &mut Vec<(Vec<u8>, usize)>, dbof: &mut HashMap<i128, i64>, conn: i128) {
        match (&rq.name[..], v) {
            (b"LPUSH", V::Int(n)) | (b"RPUSH", V::Int(n)) if *n > 0 => { for e in &rq.args[1..] { acked.push((e.clone(), ix)); } }
            (b"EVAL", V::Int(n)) if *n > 0 && rq.args.len() == 4 => acked.push((rq.args[3].clone(), ix)),
            (b"LPOP", V::Bulk(e)) | (b"RPOP", V::Bulk(e)) => got.push((e.clone(), ix)),
            (b"BLPOP", V::Array(l)) | (b"BRPOP", V::Array(l)) => {
                match (l.get(0), l.get(1)) {
                    (Some(V::Bulk(k)), Some(V::Bulk(e))) if l.len() == 2 => {
                        got.push((e.clone(), ix));
                        if !rq.args[..rq.args.len() - 1].contains(k) { fails.push(format!("FAIL case={} op={} a blocking pop was answered from key {:?} it did not name", cid, ix, String::from_utf8_lossy(k))); }
                    }
                    _ => fails.push(format!("FAIL case={} op={} malformed reply to a blocking pop", cid, ix)),
                }
            }
            (b"BLPOP", V::NullArray) | (b"BRPOP", V::NullArray) if rq.queued => {}      // inside EXEC: nil at once
            (b"BLPOP", V::NullArray) | (b"BRPOP", V::NullArray) => {
                if rq.oms == 0 { fails.push(format!("FAIL case={} op={} nil answered a blocking pop that asked to wait forever", cid, ix)); }
                else if rq.oms > 0 && t < rq.t + rq.oms { fails.push(format!("FAIL case={} op={} nil at {} ms answered a blocking pop sent at {} ms with a timeout of {} ms", cid, ix, t, rq.t, rq.oms)); }
            }
            (b"SELECT", V::Simple(_)) => { if let Some(d) = rq.args.get(0).and_then(|a| String::from_utf8_lossy(a).parse::<i64>().ok()) { dbof.insert(conn, d); } }
            _ => {}
        }
    }

    for (ix, op) in c.ops.iter().enumerate() {
        let name = tok_bytes(&op[0]).to_vec();
        let out = match outs.get(ix) { Some(o) => o, None => break };
        match &name[..] {
            b"BSEND" => {
                let conn = tok_int(&op[1]); let t = tok_int(&op[2]); let n = tok_int(&op[3]) as usize;
                if out.first() != Some(&i(0)) { continue; }
                let mut pos = 4; let mut reqs = vec![];
                for _ in 0..n { if let Some(v) = V::dec(op, &mut pos) { reqs.push(v); } }
                let oms: Vec<i128> = op[pos..].iter().map(|x| tok_int(x)).collect();
                let mut blocked_before = false;
                for (k, rq) in reqs.iter().enumerate() {
                    let nm = req_name(rq);
                    let args: Vec<Vec<u8>> = match rq { V::Array(l) => l.iter().skip(1).map(|x| match x { V::Bulk(b) => b.clone(), _ => b"?".to_vec() }).collect(), _ => vec![] };
                    if (nm == b"LPUSH" || nm == b"RPUSH") && args.len() >= 2 { for e in &args[1..] { *sent.entry(e.clone()).or_insert(0) += 1; } }
                    if nm == b"EVAL" && args.len() == 4 { *sent.entry(args[3].clone()).or_insert(0) += 1; }
                    if blocked_before || pend.get(&conn).map_or(false, |q| q.iter().any(|r| is_block(&r.name) && r.oms >= 0 && !r.queued)) { behind_block = true; }
                    let in_multi = *send_multi.get(&conn).unwrap_or(&false);
                    if nm == b"MULTI" { send_multi.insert(conn, true); }
                    if nm == b"EXEC" || nm == b"DISCARD" { send_multi.insert(conn, false); }
                    if is_block(&nm) && !in_multi && bulks(rq).is_some() && oms.get(k).map_or(false, |o| *o >= 0) { blocked_before = true; }
                    pend.entry(conn).or_default().push(Req { name: nm, args, t, oms: *oms.get(k).unwrap_or(&-2), db: 0, queued: in_multi });
                }
            }
            b"BRECV" | b"BCLOSE" => {
                let conn = tok_int(&op[1]); let t = tok_int(&op[2]);
                let mut pos = 1;
                if &name[..] == b"BCLOSE" {
                    if out.len() >= 2 && out[0] == i(0) && matches!(out[1], Tok::I(o) if o > 0) { blocked_close = true; }
                    pos = 2;
                }
                let mut frames = vec![];
                while pos < out.len() { match V::dec(out, &mut pos) { Some(v) => frames.push(v), None => break } }
                for v in frames {
                    let q = pend.entry(conn).or_default();
                    // replies come in request order, except that a blocked call is answered later than the
                    // requests the server ran behind it: Int/Bulk/nil-bulk/Simple cannot answer a blocking pop
                    let not_blocking_reply = matches!(v, V::Int(_) | V::Bulk(_) | V::NullBulk | V::Simple(_));
                    let k = if *recv_multi.get(&conn).unwrap_or(&false) { if q.is_empty() { None } else { Some(0) } }
                            else if not_blocking_reply { q.iter().position(|r| !is_block(&r.name) || r.queued) } else { if q.is_empty() { None } else { Some(0) } };
                    let k = match k { Some(k) => k, None => { fails.push(format!("FAIL case={} op={} connection {} received more replies than it sent requests", c.id, ix, conn)); continue; } };
                    let mut rq = q.remove(k);
                    rq.db = *dbof.get(&conn).unwrap_or(&0);
                    if matches!(&v, V::Simple(s) if s == b"QUEUED") { txq.entry(conn).or_default().push(rq); continue; }
                    if rq.name == b"MULTI" || rq.name == b"DISCARD" { txq.remove(&conn); }
                    if rq.name == b"MULTI" && matches!(&v, V::Simple(s) if s == b"OK") { recv_multi.insert(conn, true); }
                    if rq.name == b"EXEC" || rq.name == b"DISCARD" { recv_multi.insert(conn, false); }
                    if rq.name == b"EXEC" {
                        let qd = txq.remove(&conn).unwrap_or_default();
                        if let V::Array(l) = &v { if l.len() == qd.len() { for (r2, v2) in qd.iter().zip(l.iter()) { account(r2, v2, ix, t, &c.id, &mut fails, &mut acked, &mut got, &mut dbof, conn); } } }
                        continue;
                    }
                    account(&rq, &v, ix, t, &c.id, &mut fails, &mut acked, &mut got, &mut dbof, conn);
                }
            }
            b"CMD" => {
                let mut pos = 3;
                let rq = match V::dec(op, &mut pos) { Some(r) => r, None => continue };
                let nm = req_name(&rq);
                let args: Vec<Vec<u8>> = match &rq { V::Array(l) => l.iter().skip(1).map(|x| match x { V::Bulk(b) => b.clone(), _ => b"?".to_vec() }).collect(), _ => vec![] };
                let mut p2 = 0; let v = match V::dec(out, &mut p2) { Some(v) => v, None => continue };
                if (nm == b"LPUSH" || nm == b"RPUSH") && args.len() >= 2 { for e in &args[1..] { *sent.entry(e.clone()).or_insert(0) += 1; } }
                if nm == b"EVAL" && args.len() == 4 { *sent.entry(args[3].clone()).or_insert(0) += 1; }
                let r = Req { name: nm.clone(), args: args.clone(), t: tok_int(&op[2]), oms: -2, db: 0, queued: false };
                account(&r, &v, ix, tok_int(&op[2]), &c.id, &mut fails, &mut acked, &mut got, &mut dbof, tok_int(&op[1]));
                if nm == b"LRANGE" {
                    if let Some(els) = bulks(&v) {
                        if ix > last_bsend { remaining.extend(els); }
                        else if let Some(nx) = c.ops.get(ix + 1) {
                            // LRANGE k 0 -1 immediately followed by DEL k on the same connection: these elements are deleted
                            let mut p3 = 3;
                            if tok_bytes(&nx[0]) == b"CMD" { if let Some(V::Array(l)) = V::dec(nx, &mut p3) {
                                if l.len() == 2 && l[0] == V::Bulk(b"DEL".to_vec()) && Some(&l[1]) == (match &rq { V::Array(a) => a.get(1), _ => None }) { deleted.extend(els); }
                            } }
                        }
                    }
                }
            }
            _ => {}
        }
    }
    let nfixed = fails.len();
    let class = if blocked_close { " class=blocked-disconnect" } else if behind_block { " class=pipelined-behind-block" } else { "" };
    // each element at most once among returned + remaining + deleted
    let mut seen: HashMap<Vec<u8>, usize> = HashMap::new();
    for (e, _) in &got { *seen.entry(e.clone()).or_insert(0) += 1; }
    for e in remaining.iter().chain(deleted.iter()) { *seen.entry(e.clone()).or_insert(0) += 1; }
    for (e, n) in &seen {
        let s = *sent.get(e).unwrap_or(&0);
        if s == 0 { fails.push(format!("FAIL case={} op=0 element {:?} was returned or remains but was never pushed", c.id, String::from_utf8_lossy(e))); }
        else if *n > s { fails.push(format!("FAIL case={} op=0 element {:?} pushed {} time(s) but returned/remaining {} times (duplicate delivery){}", c.id, String::from_utf8_lossy(e), s, n, class)); }
    }
    for (e, ix) in &acked {
        if !seen.contains_key(e) { fails.push(format!("FAIL case={} op={} element {:?} of an acknowledged push is neither in its list nor was it returned to a client (lost){}", c.id, ix, String::from_utf8_lossy(e), class)); }
    }
    if !class.is_empty() { for f in fails.iter_mut().take(nfixed) { f.push_str(class); } }
    fails
}
