//! C14: pub/sub.  In-process histories on ferrous::pubsub::PubSubManager (several connections,
//! overlapping channels and glob patterns) compared call by call with Model/PubSub.v, and the
//! byte-level matcher pubsub::pattern_matches on all (pattern, text) pairs over a small alphabet.
use crate::resp::V;
use crate::rng::Rng;
use crate::srv::*;
use crate::tok::*;
use ferrous::pubsub::{pattern_matches, PubSubManager, SubResult, Subscription};
use std::collections::{BTreeMap, BTreeSet};

pub const CHANNELS: &[&[u8]] = &[b"news", b"news.sports", b"n", b"new", b"", b"x", b"n*", b"ne?s", b"\x00\xff\r\n", b"news.weather",
    b"hello", b"hallo", b"[n]ews", b"h]llo", b"news7", b"]", b"-", b"^", b"[abc", b"h\\]llo"];
/// incl. character classes (eb2d54d): sets, `^` negation, ranges, a failed class after a star, unterminated `[`,
/// `]` first (empty class), escaped brackets, `-` at the edge, a reversed range, a backslash inside a class
pub const PATTERNS: &[&[u8]] = &[b"n*", b"ne*", b"news*", b"*", b"news.?ports", b"?", b"news", b"n\\*", b"\\n*", b"*s", b"n*s",
    b"*.*", b"??ws", b"", b"[n]ews", b"n[a-z]*", b"news\\", b"**", b"*e*s*", b"\x00*",
    b"h[ae]llo", b"h[^e]llo", b"n[^a-d]ws", b"[a-n]*", b"*[0-9]", b"ne[w-z]s", b"[abc", b"n[]ews", b"[]a]", b"[^]", b"[^]]",
    b"\\[n]ews", b"\\[abc", b"[a-]", b"[z-a]", b"h[\\]]llo", b"[n-]*", b"[^^]", b"*[s]", b"[\x00-\xff]ews"];
pub const ALPHA: &[u8] = b"ab*?\\";

fn sub_name(s: &Subscription) -> (u8, Vec<u8>) { match s { Subscription::Channel(c) => (0, c.clone()), Subscription::Pattern(p) => (1, p.clone()) } }

fn enc_results(rs: &[SubResult], kind: u8, sort_names: bool, out: &mut Vec<Tok>) {
    let mut names: Vec<Vec<u8>> = vec![];
    for r in rs { let (k, n) = sub_name(&r.subscription); if k != kind { out.push(b("WRONGKIND")); } names.push(n); }
    if sort_names { names.sort(); }
    for (k, r) in rs.iter().enumerate() { out.push(bv(&names[k])); out.push(i(r.num_subscriptions as i64)); out.push(i(r.is_new as i64)); }
}

fn names_of(op: &[Tok], from: usize) -> Vec<Vec<u8>> { op[from..].iter().map(|t| tok_bytes(t).to_vec()).collect() }

/// texts over `alpha` up to length n: by length, then first character major (= RunPubSub.strings_upto)
pub fn strings_upto(alpha: &[u8], n: usize) -> Vec<Vec<u8>> {
    let mut all: Vec<Vec<u8>> = vec![vec![]];
    let mut cur: Vec<Vec<u8>> = vec![vec![]];
    for _ in 0..n {
        let mut next = vec![];
        for c in alpha { for s in &cur { let mut v = vec![*c]; v.extend(s); next.push(v); } }
        all.extend(next.iter().cloned()); cur = next;
    }
    all
}

pub struct St { pub ps: std::sync::Arc<PubSubManager>, pub tally: BTreeMap<String, u64> }

pub fn run_op(st: &mut St, op: &[Tok]) -> (Vec<Tok>, Vec<Tok>) {
    let name = tok_bytes(&op[0]).to_vec();
    let mut out = vec![];
    let mut newop = op.to_vec();
    let mut t = |st: &mut St, k: String| { *st.tally.entry(k).or_insert(0) += 1; };
    match &name[..] {
        b"SUB" | b"PSUB" => {
            let c = tok_int(&op[1]) as u64; let names = names_of(op, 2);
            let (rs, kind) = if name == b"SUB" { (st.ps.subscribe(c, names).unwrap(), 0) } else { (st.ps.psubscribe(c, names).unwrap(), 1) };
            for r in &rs { t(st, format!("{} {}", String::from_utf8_lossy(&name), if r.is_new { "new" } else { "dup" })); }
            if rs.is_empty() { t(st, format!("{} empty-list", String::from_utf8_lossy(&name))); }
            enc_results(&rs, kind, false, &mut out);
        }
        b"UNSUB" | b"PUNSUB" => {
            let c = tok_int(&op[1]) as u64; let all = tok_int(&op[2]) == 0;
            let names = if all { None } else { Some(names_of(op, 3)) };
            let had = st.ps.is_subscribed(c);
            let nm = String::from_utf8_lossy(&name).to_string();
            let (rs, kind) = if name == b"UNSUB" { (st.ps.unsubscribe(c, names).unwrap(), 0) } else { (st.ps.punsubscribe(c, names).unwrap(), 1) };
            t(st, format!("{} {} entry={} results={} gone={}", nm, if all { "all" } else { "named" }, had, rs.len().min(3), had && !st.ps.is_subscribed(c)));
            enc_results(&rs, kind, all, &mut out);
        }
        b"UNSUBALL" => { let c = tok_int(&op[1]) as u64; let had = st.ps.is_subscribed(c); st.ps.unsubscribe_all(c).unwrap(); t(st, format!("UNSUBALL entry={}", had)); }
        b"PUB" => {
            let ch = tok_bytes(&op[1]).to_vec(); let msg = tok_bytes(&op[2]).to_vec();
            let mut rc = st.ps.publish(&ch, &msg).unwrap();
            rc.sort();      // (connection, None before Some, pattern bytes) = RunPubSub.rsort
            let npat = rc.iter().filter(|r| r.1.is_some()).count();
            let mut per: BTreeMap<u64, usize> = BTreeMap::new(); for r in &rc { *per.entry(r.0).or_insert(0) += 1; }
            t(st, format!("PUB receivers={} direct={} viapattern={} max_per_conn={}", rc.len().min(3), (rc.len() - npat).min(2), npat.min(2), per.values().max().cloned().unwrap_or(0).min(3)));
            newop.truncate(3);
            out.push(i(rc.len() as i64));
            for (c, p) in &rc { out.push(i(*c as i64)); out.push(i(p.is_some() as i64)); out.push(bv(p.as_deref().unwrap_or(b""))); }
        }
        b"INFO" => {
            let c = tok_int(&op[1]) as u64;
            match st.ps.get_subscription_info(c) {
                None => out.push(i(0)),
                Some(inf) => {
                    let mut chs: Vec<Vec<u8>> = inf.channels.into_iter().collect(); chs.sort();
                    let mut pats: Vec<Vec<u8>> = inf.patterns.into_iter().collect(); pats.sort();
                    if chs.is_empty() && pats.is_empty() { t(st, "INFO empty-entry".to_string()); }
                    out.push(i(1)); out.push(i(chs.len() as i64)); for x in &chs { out.push(bv(x)); }
                    out.push(i(pats.len() as i64)); for x in &pats { out.push(bv(x)); }
                }
            }
        }
        b"ISSUB" => out.push(i(st.ps.is_subscribed(tok_int(&op[1]) as u64) as i64)),
        b"CNT" => out.push(i(st.ps.channel_subscriber_count(tok_bytes(&op[1])) as i64)),
        b"MATCH" => { let r = pattern_matches(tok_bytes(&op[1]), tok_bytes(&op[2])); t(st, format!("MATCH {}", r)); out.push(i(r as i64)); }
        b"MATCHP" => {
            let p = tok_bytes(&op[1]); let n = tok_int(&op[2]) as usize; let alpha = tok_bytes(&op[3]);
            let bits: Vec<u8> = strings_upto(alpha, n).iter().map(|s| pattern_matches(p, s) as u8).collect();
            let ones = bits.iter().filter(|x| **x == 1).count() as u64;
            *st.tally.entry("MATCHP pairs".into()).or_insert(0) += bits.len() as u64;
            *st.tally.entry("MATCHP matches".into()).or_insert(0) += ones;
            out.push(bv(&bits));
        }
        _ => out.push(b("BADOP")),
    }
    (newop, out)
}

pub fn run(c: &Case) -> Case {
    if is_tcp(c) { return run_case(c, &SrvOpts::default()); }
    let mut st = St { ps: PubSubManager::new(), tally: BTreeMap::new() };
    let mut r = Case { id: c.id.clone(), ops: vec![], outs: vec![] };
    for op in &c.ops {
        let res = std::panic::catch_unwind(std::panic::AssertUnwindSafe(|| run_op(&mut st, op)));
        match res { Ok((o, out)) => { r.ops.push(o); r.outs.push(out); } Err(_) => { r.ops.push(op.clone()); r.outs.push(vec![b("PANIC")]); } }
    }
    if std::env::var("VERIF_TALLY").is_ok() { for (k, v) in &st.tally { eprintln!("TALLY {} {}", v, k); } }
    r
}

// ---------------------------------------------------------------- generator
fn op_names(name: &str, c: i64, names: &[Vec<u8>]) -> Vec<Tok> { let mut o = vec![b(name), i(c)]; for n in names { o.push(bv(n)); } o }
fn op_unsub(name: &str, c: i64, names: Option<&[Vec<u8>]>) -> Vec<Tok> {
    let mut o = vec![b(name), i(c), i(names.is_some() as i64)]; if let Some(l) = names { for n in l { o.push(bv(n)); } } o
}
fn pick_names(r: &mut Rng, pool: &[&[u8]], max: u64) -> Vec<Vec<u8>> { (0..1 + r.below(max)).map(|_| r.pick(pool).to_vec()).collect() }

fn gen_history(r: &mut Rng) -> Vec<Vec<Tok>> {
    let nconn = 2 + r.below(4) as i64;
    // a per-case sub-pool makes collisions frequent
    let chs: Vec<&[u8]> = (0..2 + r.below(4)).map(|_| *r.pick(CHANNELS)).collect();
    let pats: Vec<&[u8]> = (0..2 + r.below(5)).map(|_| *r.pick(PATTERNS)).collect();
    let mut ops = vec![];
    let big = r.chance(1, 4); let len = 5 + r.below(if big { 80 } else { 30 });
    for _ in 0..len {
        let c = 1 + r.below(nconn as u64) as i64;
        match r.below(100) {
            0..=21 => ops.push(op_names("SUB", c, &pick_names(r, &chs, 3))),
            22..=41 => ops.push(op_names("PSUB", c, &pick_names(r, &pats, 3))),
            42..=51 => { // UNSUB: named (subscribed or not, duplicates), all, Some([])
                let k = r.below(10);
                if k < 6 { ops.push(op_unsub("UNSUB", c, Some(&pick_names(r, &chs, 3)))) }
                else if k < 9 { ops.push(op_unsub("UNSUB", c, None)) } else { ops.push(op_unsub("UNSUB", c, Some(&[]))) }
            }
            52..=61 => {
                let k = r.below(10);
                if k < 6 { ops.push(op_unsub("PUNSUB", c, Some(&pick_names(r, &pats, 3)))) }
                else if k < 9 { ops.push(op_unsub("PUNSUB", c, None)) } else { ops.push(op_unsub("PUNSUB", c, Some(&[]))) }
            }
            62..=65 => ops.push(vec![b("UNSUBALL"), i(c)]),
            66..=89 => { let ch = if r.chance(1, 8) { *r.pick(CHANNELS) } else { *r.pick(&chs) };
                         let msg: Vec<u8> = (0..r.below(6)).map(|_| r.below(256) as u8).collect();
                         ops.push(vec![b("PUB"), bv(ch), bv(&msg)]); }
            90..=93 => ops.push(vec![b("INFO"), i(c)]),
            94..=96 => ops.push(vec![b("ISSUB"), i(c)]),
            97 => ops.push(op_names("SUB", c, &[])),        // API level only: leaves an empty entry
            98 => ops.push(op_names("PSUB", c, &[])),
            _ => ops.push(vec![b("CNT"), bv(*r.pick(&chs))]),
        }
    }
    // dump: the whole state and one publish per channel of the pool
    for c in 1..=nconn { ops.push(vec![b("INFO"), i(c)]); ops.push(vec![b("ISSUB"), i(c)]); }
    for ch in CHANNELS { ops.push(vec![b("CNT"), bv(ch)]); ops.push(vec![b("PUB"), bv(ch), bv(b"m")]); }
    ops
}

/// text generated from a pattern so that matches are frequent
fn text_from(r: &mut Rng, p: &[u8], alpha: &[u8]) -> Vec<u8> {
    let mut t = vec![]; let mut k = 0;
    while k < p.len() {
        match p[k] {
            b'*' => { for _ in 0..r.below(4) { t.push(*r.pick(alpha)); } k += 1; }
            b'?' => { t.push(*r.pick(alpha)); k += 1; }
            b'\\' if k + 1 < p.len() => { t.push(p[k + 1]); k += 2; }
            b'[' => {
                // a member of the class (first ']' ends it), or any byte for a negated one
                match p[k..].iter().position(|&c| c == b']') {
                    Some(e) => { let body = &p[k + 1..k + e];
                                 if body.first() == Some(&b'^') || body.is_empty() { t.push(*r.pick(alpha)); }
                                 else { let m = *r.pick(body); t.push(if m == b'-' && body.len() >= 3 { body[0] } else { m }); }
                                 k += e + 1; }
                    None => { t.push(b'['); k += 1; }
                }
            }
            c => { t.push(c); k += 1; }
        }
    }
    if r.chance(1, 3) && !t.is_empty() { let pos = r.below(t.len() as u64) as usize; match r.below(3) { 0 => { t.remove(pos); } 1 => t.insert(pos, *r.pick(alpha)), _ => t[pos] = *r.pick(alpha) } }
    t
}

pub fn gen(seed: u64, n: usize, tier: &str) -> Vec<Case> {
    let mut r = Rng::new(seed);
    let mut cases = vec![];
    let v = |x: &[u8]| x.to_vec();
    // fixed witnesses (DESIGN section 4: F-14a, F-05d, F-14b) and the unit tests of pubsub.rs
    cases.push(Case { id: "w-dedup".into(), outs: vec![], ops: vec![
        op_names("SUB", 1, &[v(b"news")]), op_names("PSUB", 1, &[v(b"n*"), v(b"ne*")]), vec![b("PUB"), b("news"), b("m")] ] });
    cases.push(Case { id: "w-unsub-noentry".into(), outs: vec![], ops: vec![
        op_unsub("UNSUB", 1, Some(&[v(b"a")])), op_unsub("PUNSUB", 1, None), op_unsub("UNSUB", 1, None), vec![b("ISSUB"), i(1)] ] });
    cases.push(Case { id: "w-class".into(), outs: vec![], ops: vec![
        op_names("PSUB", 1, &[v(b"[n]ews")]), vec![b("PUB"), b("news"), b("m")], vec![b("PUB"), b("[n]ews"), b("m")] ] });
    // class syntax where this matcher differs from Redis (finding glob-class-end): the first ']' ends the class
    cases.push(Case { id: "w-class-end".into(), outs: vec![], ops: vec![
        op_names("PSUB", 1, &[v(b"h[\\]]llo")]), op_names("PSUB", 2, &[v(b"[abc")]), op_names("PSUB", 3, &[v(b"[z-a]")]),
        vec![b("PUB"), b("h]llo"), b("m")], vec![b("PUB"), b("h\\]llo"), b("m")], vec![b("PUB"), b("a"), b("m")], vec![b("PUB"), b("m"), b("m")] ] });
    cases.push(Case { id: "w-unit".into(), outs: vec![], ops: vec![
        op_names("SUB", 1, &[v(b"news")]), op_names("SUB", 2, &[v(b"news")]), op_names("PSUB", 3, &[v(b"news*")]),
        vec![b("PUB"), b("news"), b("hello")], vec![b("PUB"), b("news.sports"), b("goal!")],
        op_names("SUB", 1, &[v(b"channel1"), v(b"channel2"), v(b"channel1")]),
        op_unsub("UNSUB", 1, Some(&[v(b"news"), v(b"news"), v(b"zz")])), op_unsub("UNSUB", 1, None), vec![b("INFO"), i(1)] ] });
    for id in 0..n { cases.push(Case { id: format!("h-{}", id), ops: gen_history(&mut r), outs: vec![] }); }
    // server level over TCP: fixed witnesses, judged histories ("s-") and histories with QUIT / pipelines / MULTI ("sx-")
    cases.extend(tcp_witnesses());
    let nt = if tier == "thorough" { n / 8 } else { n / 6 };
    for id in 0..nt { let extras = id % 3 == 2; cases.push(Case { id: format!("{}-{}", if extras { "sx" } else { "s" }, id), ops: gen_tcp(&mut r, extras), outs: vec![] }); }
    // matcher: exhaustive over a 5-symbol alphabet (a b * ? \) for patterns and texts
    let (pl, tl) = if tier == "thorough" { (5, 5) } else { (4, 4) };
    let pats = strings_upto(ALPHA, pl);
    for (k, chunk) in pats.chunks(60).enumerate() {
        let ops = chunk.iter().map(|p| vec![b("MATCHP"), bv(p), i(tl as i64), bv(ALPHA)]).collect();
        cases.push(Case { id: format!("m-{}", k), ops, outs: vec![] });
    }
    // classes: exhaustive over the bracket alphabet (a [ ] ^ -) for patterns, (a b - ]) for texts
    let (bpl, btl) = if tier == "thorough" { (6, 4) } else { (5, 3) };
    let bpats: Vec<Vec<u8>> = strings_upto(b"a[]^-", bpl).into_iter().filter(|p| p.contains(&b'[')).collect();
    for (k, chunk) in bpats.chunks(200).enumerate() {
        let ops = chunk.iter().map(|p| vec![b("MATCHP"), bv(p), i(btl as i64), bv(b"ab-]")]).collect();
        cases.push(Case { id: format!("mb-{}", k), ops, outs: vec![] });
    }
    // longer random pairs over a richer alphabet, texts derived from the pattern
    let rich: &[u8] = b"abc*?\\[]-^.\x00\xff";
    let nm = if tier == "thorough" { 400 } else { 40 };
    for k in 0..nm {
        let mut ops = vec![];
        for _ in 0..100 {
            let p: Vec<u8> = (0..r.below(13)).map(|_| if r.chance(1, 3) { b'*' } else { *r.pick(rich) }).collect();
            let t = if r.chance(3, 4) { text_from(&mut r, &p, b"abc*\\.") } else { (0..r.below(10)).map(|_| *r.pick(rich)).collect() };
            ops.push(vec![b("MATCH"), bv(&p), bv(&t)]);
        }
        cases.push(Case { id: format!("r-{}", k), ops, outs: vec![] });
    }
    cases
}

// ---------------------------------------------------------------- property oracle
/// Declarative glob semantics: `*` any (possibly empty) string, `?` any byte, `\x` the byte x,
/// `[...]` a class as in Redis (util.c stringmatchlen: `^` negation, ranges, escapes; an unclosed
/// class extends to the end of the pattern), a trailing `\` itself.
fn redis_match(p: &[u8], s: &[u8]) -> bool {
    if p.is_empty() { return s.is_empty(); }
    match p[0] {
        b'*' => redis_match(&p[1..], s) || (!s.is_empty() && redis_match(p, &s[1..])),
        b'?' => !s.is_empty() && redis_match(&p[1..], &s[1..]),
        b'[' => {
            if s.is_empty() { return false; }
            let mut q = &p[1..];
            let not = !q.is_empty() && q[0] == b'^'; if not { q = &q[1..]; }
            let mut m = false;
            loop {
                if q.len() >= 2 && q[0] == b'\\' { q = &q[1..]; if q[0] == s[0] { m = true; } }
                else if q.is_empty() { break; }
                else if q[0] == b']' { break; }
                else if q.len() >= 3 && q[1] == b'-' { let (mut a, mut z) = (q[0], q[2]); if a > z { std::mem::swap(&mut a, &mut z); } q = &q[2..]; if s[0] >= a && s[0] <= z { m = true; } }
                else if q[0] == s[0] { m = true; }
                q = &q[1..];
            }
            let rest = if q.is_empty() { q } else { &q[1..] };
            (m != not) && redis_match(rest, &s[1..])
        }
        b'\\' if p.len() >= 2 => !s.is_empty() && p[1] == s[0] && redis_match(&p[2..], &s[1..]),
        c => !s.is_empty() && c == s[0] && redis_match(&p[1..], &s[1..]),
    }
}

/// The property on the implementation's outputs, against an abstract per-connection state:
/// acknowledgements (one per name, correct remaining count), PUBLISH = one delivery per
/// matching subscription to exactly the subscribed connections.
pub fn judge(c: &Case, outs: &[Vec<Tok>]) -> Vec<String> {
    if is_tcp(c) { return judge_tcp(c, outs); }
    let mut fails = vec![];
    let mut subs: BTreeMap<i128, (BTreeSet<Vec<u8>>, BTreeSet<Vec<u8>>)> = BTreeMap::new();
    for (k, (op, out)) in c.ops.iter().zip(outs.iter()).enumerate() {
        if out.first() == Some(&b("PANIC")) { fails.push(format!("FAIL case={} op={} panic", c.id, k)); continue; }
        let name = tok_bytes(&op[0]).to_vec();
        match &name[..] {
            b"SUB" | b"PSUB" | b"UNSUB" | b"PUNSUB" => {
                let cid = tok_int(&op[1]);
                let e = subs.entry(cid).or_default();
                let is_sub = name == b"SUB" || name == b"PSUB";
                let chan = name == b"SUB" || name == b"UNSUB";
                let names: Vec<Vec<u8>> = if is_sub { names_of(op, 2) } else if tok_int(&op[2]) == 0 {
                    (if chan { &e.0 } else { &e.1 }).iter().cloned().collect() } else { names_of(op, 3) };
                let nothing = e.0.is_empty() && e.1.is_empty();
                let mut expect = vec![];
                for n in &names {
                    let set = if chan { &mut e.0 } else { &mut e.1 };
                    let new = if is_sub { set.insert(n.clone()) } else { set.remove(n); false };
                    expect.push(bv(n)); expect.push(i((e.0.len() + e.1.len()) as i64)); expect.push(i(new as i64));
                }
                // PubSubManager returns no result for a connection without an entry; the server
                // handlers answer the confirmations themselves since 68e2e20 (checked at TCP level)
                if &expect != out && !(!is_sub && nothing && out.is_empty()) {
                    fails.push(format!("FAIL case={} op={} acknowledgements differ from the subscription counts", c.id, k));
                }
            }
            b"UNSUBALL" => { subs.remove(&tok_int(&op[1])); }
            b"PUB" => {
                let ch = tok_bytes(&op[1]);
                let mut expect: Vec<(i128, Option<Vec<u8>>)> = vec![];
                let mut classy = false;
                for (cid, (chs, pats)) in &subs {
                    if chs.contains(ch) { expect.push((*cid, None)); }
                    for p in pats { if redis_match(p, ch) { expect.push((*cid, Some(p.clone()))); }
                                    if p.contains(&b'[') && redis_match(p, ch) != pattern_matches(p, ch) { classy = true; } }
                }
                let mut got: Vec<(i128, Option<Vec<u8>>)> = vec![];
                let mut pos = 1;
                while pos + 3 <= out.len() {
                    got.push((tok_int(&out[pos]), if tok_int(&out[pos + 1]) == 1 { Some(tok_bytes(&out[pos + 2]).to_vec()) } else { None })); pos += 3; }
                expect.sort(); got.sort();
                if out.is_empty() || tok_int(&out[0]) != expect.len() as i128 || got != expect {
                    let class = if classy { " class=glob-class-end" } else { "" };
                    fails.push(format!("FAIL case={} op={} deliveries differ from one per matching subscription (expected {}, got {}){}", c.id, k, expect.len(), got.len(), class));
                }
            }
            _ => {}
        }
    }
    fails
}

// ================================================================ server level (TCP)
pub fn is_tcp(c: &Case) -> bool { c.ops.first().map_or(false, |o| o.first() == Some(&b("CONN"))) }

const TCH: &[&[u8]] = &[b"news", b"news.sports", b"n", b"x", b"\x00\xff\r\n$5", b"ne?s", b""];
const TPAT: &[&[u8]] = &[b"n*", b"ne*", b"news*", b"*", b"news.?ports", b"?", b"news", b"n\\*", b"*s", b"\x00*", b"[n]ews", b"**",
    b"n[a-f]ws", b"[^x]*", b"ne[^a-v]s*", b"[mn]", b"\\[n]ews", b"*[s]", b"[\x00-\x10]*"];

fn payload(r: &mut Rng, serial: &mut u32) -> Vec<u8> {
    *serial += 1;
    let mut v = format!("m{}:", serial).into_bytes();
    for _ in 0..r.below(8) { v.push(*r.pick(&[0u8, 13, 10, 255, b'$', b'*', b'a', b' ', 0x80, b':'])); }
    v
}

/// judged = only CONN / SUBCMD / DRAIN / CLOSE (+ PING) ops; extras = QUIT, RAW pipelines, MULTI (tie only)
fn gen_tcp(r: &mut Rng, extras: bool) -> Vec<Vec<Tok>> {
    let n = 2 + r.below(3) as i64;
    let chs: Vec<&[u8]> = (0..2 + r.below(3)).map(|_| *r.pick(TCH)).collect();
    let pats: Vec<&[u8]> = (0..2 + r.below(3)).map(|_| *r.pick(TPAT)).collect();
    let mut ops: Vec<Vec<Tok>> = (1..=n).map(conn_op).collect();
    let mut live: Vec<i64> = (1..=n).collect(); let mut next_id = n + 1;     // ids are never reused: a closed
    let mut serial = 0u32;                                                  // connection may linger in the server
    let names = |r: &mut Rng, pool: &[&[u8]], max: u64| -> Vec<Vec<u8>> { (0..1 + r.below(max)).map(|_| r.pick(pool).to_vec()).collect() };
    let cmd = |c: i64, name: &[u8], args: &[Vec<u8>]| -> Vec<Tok> { let mut a: Vec<&[u8]> = vec![name]; for x in args { a.push(x); } subcmd_op(c, &a) };
    let big = r.chance(1, 4); let len = 12 + r.below(if big { 60 } else { 25 });
    for _ in 0..len {
        if live.len() < 2 { ops.push(conn_op(next_id)); live.push(next_id); next_id += 1; }
        let c = *r.pick(&live);
        let roll = if extras && r.chance(1, 7) { 99 } else if r.chance(1, 12) { 90 } else { r.below(100) };
        match roll {
            0..=19 => ops.push(cmd(c, if r.chance(1, 6) { b"subscribe" } else { b"SUBSCRIBE" }, &names(r, &chs, 3))),
            20..=35 => ops.push(cmd(c, b"PSUBSCRIBE", &names(r, &pats, 3))),
            36..=43 => ops.push(cmd(c, b"UNSUBSCRIBE", &names(r, &chs, 3))),
            44..=47 => ops.push(cmd(c, b"UNSUBSCRIBE", &[])),
            48..=54 => ops.push(cmd(c, b"PUNSUBSCRIBE", &names(r, &pats, 3))),
            55..=58 => ops.push(cmd(c, b"PUNSUBSCRIBE", &[])),
            59..=84 => {
                let ch = if r.chance(1, 8) { r.pick(TCH).to_vec() } else { r.pick(&chs).to_vec() };
                ops.push(cmd(c, b"PUBLISH", &[ch, payload(r, &mut serial)]));
                if r.chance(1, 2) { for d in live.clone() { if d != c && r.chance(2, 3) { ops.push(drain_op(d)); } } }
            }
            85..=87 => ops.push(drain_op(c)),
            88 => ops.push(cmd(c, b"PING", &[])),          // a subscribed connection still serves commands
            89 => { ops.push(cmd(c, b"QUIT", &[])); live.retain(|x| *x != c); }   // closes, subscriptions included
            90 => if r.chance(1, 3) { ops.push(cmd(c, b"SET", &[b"k".to_vec(), b"v".to_vec()])) } else {
                // a transaction (51742a5): everything but the control commands is queued - nothing is delivered and no
                // subscription changes until EXEC; DISCARD or a WATCH-aborted EXEC drop it.  Requests inside MULTI go
                // through CMD (one reply each: QUEUED), EXEC through SUBCMD (the client may receive its own messages
                // before the EXEC reply).  At most one UNSUBSCRIBE and one PUNSUBSCRIBE per transaction, named ones with
                // sorted names (their confirmations inside the EXEC reply are compared after sorting runs).
                ops.push(drain_op(c));
                let watch = r.chance(1, 4);
                if watch { ops.push(cmd_op(c, &[b"WATCH", b"wk"])); }
                ops.push(cmd_op(c, &[b"MULTI"]));
                let (mut did_unsub, mut did_punsub) = (false, false);
                for _ in 0..1 + r.below(5) {
                    match r.below(12) {
                        0..=3 => { let ch = r.pick(&chs).to_vec(); let pl = payload(r, &mut serial); ops.push(cmd_op(c, &[b"PUBLISH", &ch, &pl])); }
                        4..=5 => { let ns = names(r, &chs, 3); let mut a: Vec<&[u8]> = vec![b"SUBSCRIBE"]; for x in &ns { a.push(x); } ops.push(cmd_op(c, &a)); }
                        6 => { let ns = names(r, &pats, 2); let mut a: Vec<&[u8]> = vec![b"PSUBSCRIBE"]; for x in &ns { a.push(x); } ops.push(cmd_op(c, &a)); }
                        7 if !did_unsub => { did_unsub = true; let mut ns = if r.chance(1, 2) { names(r, &chs, 3) } else { vec![] }; ns.sort(); ns.dedup();
                                             let mut a: Vec<&[u8]> = vec![b"UNSUBSCRIBE"]; for x in &ns { a.push(x); } ops.push(cmd_op(c, &a)); }
                        8 if !did_punsub => { did_punsub = true; let mut ns = if r.chance(1, 2) { names(r, &pats, 2) } else { vec![] }; ns.sort(); ns.dedup();
                                              let mut a: Vec<&[u8]> = vec![b"PUNSUBSCRIBE"]; for x in &ns { a.push(x); } ops.push(cmd_op(c, &a)); }
                        9 => ops.push(cmd_op(c, &[b"SET", b"k", b"1"])),
                        10 => ops.push(cmd_op(c, &[b"SUBSCRIBE"])),                 // queued all the same; the arity error comes at EXEC
                        _ => ops.push(cmd_op(c, &[b"PING"])),
                    }
                }
                // another client meanwhile: touches the watched key, or subscribes (no PUBLISH: the transaction's
                // client reads one frame per request)
                if live.len() > 1 { let o = *live.iter().find(|x| **x != c).unwrap();
                    if watch && r.chance(1, 2) { ops.push(cmd(o, b"SET", &[b"wk".to_vec(), b"x".to_vec()])); }
                    else if r.chance(1, 3) { ops.push(cmd(o, b"SUBSCRIBE", &names(r, &chs, 2))); } }
                if r.chance(1, 5) { ops.push(cmd_op(c, &[b"DISCARD"])); ops.push(drain_op(c)); }
                else { ops.push(cmd(c, b"EXEC", &[])); }
                for d in live.clone() { if d != c && r.chance(2, 3) { ops.push(drain_op(d)); } }
            },
            91..=92 => { // malformed
                match r.below(5) {
                    0 => ops.push(cmd(c, b"SUBSCRIBE", &[])), 1 => ops.push(cmd(c, b"PSUBSCRIBE", &[])),
                    2 => ops.push(cmd(c, b"PUBLISH", &[b"news".to_vec()])),
                    3 => ops.push(subcmd_frame_op(c, &V::Array(vec![V::Bulk(b"SUBSCRIBE".to_vec()), V::Bulk(b"a".to_vec()), V::Int(5)]))),
                    _ => ops.push(subcmd_frame_op(c, &V::Array(vec![V::Bulk(b"PUBLISH".to_vec()), V::NullBulk, V::Bulk(b"m".to_vec())]))),
                }
            }
            93..=95 => { // disconnect (the server sees EOF and cleans up), two round trips on a live connection, reconnect
                // disconnect, mostly while still subscribed (4bdfa3e: the connection goes with its subscriptions)
                if r.chance(1, 4) { ops.push(cmd(c, b"UNSUBSCRIBE", &[])); ops.push(cmd(c, b"PUNSUBSCRIBE", &[])); }
                ops.push(close_op(c)); live.retain(|x| *x != c);
                // barrier: two round trips on a live connection = at least one full loop iteration after the
                // FIN, so the server has read the EOF and run cleanup_connections before the next PUBLISH
                let other = live[0];
                ops.push(cmd(other, b"PING", &[])); ops.push(cmd(other, b"PING", &[]));
                if r.chance(2, 3) { ops.push(conn_op(next_id)); live.push(next_id); next_id += 1; }
            }
            _ if extras => {
                match r.below(3) {
                    0 => { // after QUIT the id is dead: whatever is sent to it is not answered
                        ops.push(cmd(c, b"QUIT", &[])); live.retain(|x| *x != c); ops.push(cmd(c, b"PING", &[])); ops.push(drain_op(c)); }
                    1 => { // pipelined: replies owed before a SUBSCRIBE, in one chunk
                        let mut w = vec![];
                        V::cmd(&[b"PING"]).wire(&mut w); V::cmd(&[b"SUBSCRIBE", *r.pick(&chs)]).wire(&mut w); V::cmd(&[b"ECHO", b"after"]).wire(&mut w);
                        ops.push(subraw_op(c, &w));
                    }
                    2 => { // pipelined publish by a (possible) subscriber: the pushed frame overtakes the held replies
                        let mut w = vec![];
                        V::cmd(&[b"ECHO", b"before"]).wire(&mut w); V::cmd(&[b"PUBLISH", *r.pick(&chs), &payload(r, &mut serial)]).wire(&mut w); V::cmd(&[b"PING"]).wire(&mut w);
                        ops.push(subraw_op(c, &w));
                    }
                    _ => ops.push(drain_op(c)),
                }
            }
            _ => ops.push(drain_op(c)),
        }
    }
    // dump: everything pending, then one publish per pool channel seen by everybody
    for d in &live { ops.push(drain_op(*d)); }
    for ch in &chs { ops.push(cmd(live[0], b"PUBLISH", &[ch.to_vec(), payload(r, &mut serial)])); for d in &live { ops.push(drain_op(*d)); } }
    ops
}

fn tcp_witnesses() -> Vec<Case> {
    let v = |x: &[u8]| x.to_vec();
    let sc = |c: i64, a: &[&[u8]]| subcmd_op(c, a);
    vec![
        // F-14a after 4d06fbe: three deliveries, reply 3
        Case { id: "s-w-persub".into(), outs: vec![], ops: vec![conn_op(1), conn_op(2), sc(1, &[b"SUBSCRIBE", b"news"]), sc(1, &[b"PSUBSCRIBE", b"n*", b"ne*"]),
            sc(2, &[b"PUBLISH", b"news", b"hello"]), drain_op(1), sc(1, &[b"PUBLISH", b"news", b"self"])] },
        // F-05d after 68e2e20: confirmations although nothing is subscribed
        Case { id: "s-w-unsub-nothing".into(), outs: vec![], ops: vec![conn_op(1), sc(1, &[b"UNSUBSCRIBE", b"a", b"b"]), sc(1, &[b"UNSUBSCRIBE"]), sc(1, &[b"PUNSUBSCRIBE"]),
            sc(1, &[b"PSUBSCRIBE", b"p*"]), sc(1, &[b"UNSUBSCRIBE"]), sc(1, &[b"UNSUBSCRIBE", b"zz"]), sc(1, &[b"PUNSUBSCRIBE"])] },
        // 86d9004: PING; SUBSCRIBE ch in one batch answers PONG first
        Case { id: "sx-w-pipeline".into(), outs: vec![], ops: vec![conn_op(1), subraw_op(1, &{ let mut w = vec![]; V::cmd(&[b"PING"]).wire(&mut w); V::cmd(&[b"SUBSCRIBE", b"ch"]).wire(&mut w); w }),
            subraw_op(1, &{ let mut w = vec![]; V::cmd(&[b"PING"]).wire(&mut w); V::cmd(&[b" subscribe", b"c2"]).wire(&mut w); w })] },
        // disconnect cleanup (closing-leak repaired by 4bdfa3e): EOF and QUIT of a subscriber
        Case { id: "s-w-disconnect".into(), outs: vec![], ops: vec![conn_op(1), conn_op(2), sc(1, &[b"SUBSCRIBE", b"ch"]), close_op(1), sc(2, &[b"PING"]), sc(2, &[b"PING"]), sc(2, &[b"PUBLISH", b"ch", b"m"])] },
        Case { id: "s-w-quit-subscribed".into(), outs: vec![], ops: vec![conn_op(1), conn_op(2), sc(1, &[b"SUBSCRIBE", b"ch"]), sc(1, &[b"QUIT"]), sc(2, &[b"PUBLISH", b"ch", b"m"]), drain_op(1),
            sc(1, &[b"UNSUBSCRIBE", b"ch"]), sc(2, &[b"PUBLISH", b"ch", b"m2"]), sc(1, &[b"PING"])] },
        Case { id: "s-w-binary".into(), outs: vec![], ops: vec![conn_op(1), conn_op(2), sc(1, &[b"SUBSCRIBE", b"\x00\xff\r\n$5"]), sc(1, &[b"PSUBSCRIBE", b"\x00*"]),
            sc(2, &[b"PUBLISH", b"\x00\xff\r\n$5", &v(b"\r\n$-1\r\n*3\r\n\x00\xff")]), drain_op(1)] },
    ]
}

/// Property oracle on the implementation's outputs, server level (cases made of CONN / CLOSE / SUBCMD / DRAIN
/// and CMD inside transactions): acknowledgements with the right counts (also when nothing is subscribed),
/// PUBLISH reply = number of matching subscriptions, and for every subscriber the pushed frames it has received
/// at each collection point = exactly the matching messages published since, in publish order, bytes intact.
/// Transactions (51742a5): inside MULTI every request answers QUEUED and has no effect; DISCARD and a
/// WATCH-aborted EXEC drop the queue; EXEC runs it - messages are delivered then (to the client itself before
/// the EXEC reply), confirmations and counts are the elements of the EXEC reply.
struct JSt { subs: BTreeMap<i128, (Vec<Vec<u8>>, Vec<Vec<u8>>)>, queue: BTreeMap<i128, Vec<V>>,
             deviated: bool }   // a PUBLISH met a pattern whose class syntax this matcher reads differently from Redis (finding glob-class-end)
/// effect of one command of client `id` outside MULTI (or at EXEC): (frames pushed to itself, reply frames)
fn j_apply(st: &mut JSt, id: i128, req: &[V]) -> Option<(Vec<V>, Vec<V>)> {
    let bulk = |x: &[u8]| V::Bulk(x.to_vec());
    let cmd = match req.first() { Some(V::Bulk(x)) => x.to_ascii_uppercase(), _ => vec![] };
    let args: Option<Vec<Vec<u8>>> = req[1..].iter().map(|a| if let V::Bulk(x) = a { Some(x.clone()) } else { None }).collect();
    let err = V::Error(b"ERR".to_vec());
    let total = |s: &(Vec<Vec<u8>>, Vec<Vec<u8>>)| (s.0.len() + s.1.len()) as i64;
    let mut own = vec![]; let mut rep = vec![];
    match (&cmd[..], args) {
        (b"SUBSCRIBE", a) | (b"PSUBSCRIBE", a) => {
            let chan = cmd == b"SUBSCRIBE";
            match a { Some(a) if !a.is_empty() => { let e = st.subs.get_mut(&id).unwrap();
                for nme in a { { let set = if chan { &mut e.0 } else { &mut e.1 }; if !set.contains(&nme) { set.push(nme.clone()); } }
                    rep.push(V::Array(vec![bulk(if chan { b"subscribe" } else { b"psubscribe" }), V::Bulk(nme), V::Int(total(e))])); } }
                _ => rep.push(err) }
        }
        (b"UNSUBSCRIBE", a) | (b"PUNSUBSCRIBE", a) => {
            let chan = cmd == b"UNSUBSCRIBE"; let kind: &[u8] = if chan { b"unsubscribe" } else { b"punsubscribe" };
            match a { None => rep.push(err),
                Some(a) => { let e = st.subs.get_mut(&id).unwrap();
                    let named = !a.is_empty();
                    let mut list = if named { a } else { let mut l = (if chan { &e.0 } else { &e.1 }).clone(); l.sort(); l };
                    if !named && list.is_empty() { rep.push(V::Array(vec![bulk(kind), V::NullBulk, V::Int(total(e))])); }
                    for nme in list.drain(..) { { let set = if chan { &mut e.0 } else { &mut e.1 }; set.retain(|x| *x != nme); }
                        rep.push(V::Array(vec![bulk(kind), V::Bulk(nme), V::Int(total(e))])); } } }
        }
        (b"PUBLISH", Some(a)) if a.len() == 2 => {
            let (ch, msg) = (&a[0], &a[1]); let mut count = 0;
            let ids: Vec<i128> = st.subs.keys().cloned().collect();
            let mut deviated = false;
            for d in ids {
                let e = &st.subs[&d]; let mut fr = vec![];
                if e.0.contains(ch) { fr.push(V::Array(vec![bulk(b"message"), V::Bulk(ch.clone()), V::Bulk(msg.clone())])); }
                if e.1.iter().any(|p| p.contains(&b'[') && redis_match(p, ch) != pattern_matches(p, ch)) { deviated = true; }
                let mut ps: Vec<&Vec<u8>> = e.1.iter().filter(|p| redis_match(p, ch)).collect(); ps.sort();
                for p in ps { fr.push(V::Array(vec![bulk(b"pmessage"), V::Bulk(p.clone()), V::Bulk(ch.clone()), V::Bulk(msg.clone())])); }
                count += fr.len() as i64;
                if d == id { own.extend(fr); } else { st.queue.get_mut(&d).unwrap().extend(fr); }
            }
            if deviated { st.deviated = true; }
            rep.push(V::Int(count));
        }
        (b"PUBLISH", _) => rep.push(err),
        (b"PING", _) => rep.push(V::Simple(b"PONG".to_vec())),
        (b"SET", _) => rep.push(V::Simple(b"OK".to_vec())),
        _ => return None,
    }
    Some((own, rep))
}

fn judge_tcp(c: &Case, outs: &[Vec<Tok>]) -> Vec<String> {
    let mut fails = vec![];
    if !c.id.starts_with("s-") { return fails; }
    let mut st = JSt { subs: BTreeMap::new(), queue: BTreeMap::new(), deviated: false };
    let mut tx: BTreeMap<i128, Vec<Vec<V>>> = BTreeMap::new();          // open transactions: queued requests
    let mut watching: BTreeMap<i128, BTreeSet<Vec<u8>>> = BTreeMap::new(); let mut dirty: BTreeSet<i128> = BTreeSet::new();
    let classy = |st: &JSt| st.deviated;
    for (k, (op, out)) in c.ops.iter().zip(outs.iter()).enumerate() {
        let name = tok_bytes(&op[0]).to_vec();
        match &name[..] {
            b"CONN" => { let id = tok_int(&op[1]); st.subs.insert(id, (vec![], vec![])); st.queue.insert(id, vec![]); }
            b"CLOSE" => { let id = tok_int(&op[1]); st.subs.remove(&id); st.queue.remove(&id); tx.remove(&id); watching.remove(&id); dirty.remove(&id); }
            b"CMD" => {
                // one request, one frame read: used inside transactions (and for WATCH / MULTI / DISCARD)
                let id = tok_int(&op[1]);
                if !st.subs.contains_key(&id) { continue; }
                let mut p = 3;
                let req = match V::dec(op, &mut p) { Some(V::Array(l)) => l, _ => continue };
                let cmd = match req.first() { Some(V::Bulk(x)) => x.to_ascii_uppercase(), _ => vec![] };
                let mut pos = 0; let got = V::dec(out, &mut pos);
                let reply = if let Some(q) = tx.get_mut(&id) {
                    match &cmd[..] {
                        b"DISCARD" => { tx.remove(&id); watching.remove(&id); dirty.remove(&id); V::Simple(b"OK".to_vec()) }
                        b"MULTI" | b"WATCH" => V::Error(b"ERR".to_vec()),
                        b"EXEC" | b"UNWATCH" => continue,
                        _ => { q.push(req.clone()); V::Simple(b"QUEUED".to_vec()) }
                    }
                } else {
                    match &cmd[..] {
                        b"MULTI" => { tx.insert(id, vec![]); V::Simple(b"OK".to_vec()) }
                        b"WATCH" => { for a in &req[1..] { if let V::Bulk(x) = a { watching.entry(id).or_default().insert(x.clone()); } } V::Simple(b"OK".to_vec()) }
                        _ => continue,
                    }
                };
                // whatever was pushed to the client and not read yet comes first
                let mut all = st.queue.get_mut(&id).map(std::mem::take).unwrap_or_default(); all.push(reply);
                let head = all.remove(0); *st.queue.get_mut(&id).unwrap() = all;
                if got.as_ref() != Some(&head) { fails.push(format!("FAIL case={} op={} inside a transaction: expected QUEUED / OK and no effect", c.id, k)); return fails; }
            }
            b"SUBCMD" | b"DRAIN" => {
                let id = tok_int(&op[1]);
                if !st.subs.contains_key(&id) { continue; }
                let mut got = vec![]; let mut pos = 1; let mut odd = out.is_empty() || !matches!(out[0], Tok::I(_));
                while !odd && pos < out.len() { if matches!(out[pos], Tok::B(_)) { odd = true; break; } match V::dec(out, &mut pos) { Some(v) => got.push(v), None => { odd = true; } } }
                if odd { fails.push(format!("FAIL case={} op={} timeout / garbage / closed while collecting frames", c.id, k)); continue; }
                let mut expect: Vec<V> = st.queue.get_mut(&id).map(std::mem::take).unwrap_or_default();
                let mut quit = false;
                if &name[..] == b"SUBCMD" {
                    let mut p = 3;
                    let req = match V::dec(op, &mut p) { Some(V::Array(l)) => l, _ => continue };
                    let cmd = match req.first() { Some(V::Bulk(x)) => x.to_ascii_uppercase(), _ => vec![] };
                    if cmd == b"SET" { if let Some(V::Bulk(key)) = req.get(1) { for (w, keys) in &watching { if keys.contains(key) { dirty.insert(*w); } } } }
                    if cmd == b"QUIT" { expect.push(V::Simple(b"OK".to_vec())); quit = true; }
                    else if cmd == b"EXEC" {
                        match tx.remove(&id) {
                            None => expect.push(V::Error(b"ERR".to_vec())),
                            Some(q) => {
                                let aborted = dirty.remove(&id); watching.remove(&id);
                                if aborted { expect.push(V::NullArray); } else {
                                    let mut elems = vec![];
                                    for qr in &q { match j_apply(&mut st, id, qr) { Some((own, rep)) => { expect.extend(own); elems.extend(rep); } None => { return fails; } } }
                                    expect.push(V::Array(elems));
                                }
                            }
                        }
                    } else {
                        match j_apply(&mut st, id, &req) { Some((own, rep)) => { expect.extend(own); expect.extend(rep); } None => continue }
                    }
                }
                if quit { if tok_int(&out[0]) != 1 { fails.push(format!("FAIL case={} op={} the connection stays open after QUIT", c.id, k)); } st.subs.remove(&id); st.queue.remove(&id); tx.remove(&id); }
                if got != expect {
                    let cl = classy(&st);
                    fails.push(format!("FAIL case={} op={} frames received by client {} differ from acknowledgements / matching messages in publish order (expected {}, got {}){}",
                        c.id, k, id, expect.len(), got.len(), if cl { " class=glob-class-end" } else { "" }));
                    if cl { return fails; }
                }
            }
            _ => {}
        }
    }
    fails
}
