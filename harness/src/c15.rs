//! C15: stream commands (XADD XRANGE XREVRANGE XLEN XREAD XTRIM XDEL), histories over TCP
//! against the model; canonicalisation shared with C16; property oracle on the
//! implementation's replies (independent of the model).
use crate::resp::V;
use crate::rng::Rng;
use crate::srv::*;
use crate::tok::*;

// ---------------------------------------------------------------- canonical form
fn is_bulk(v: &V) -> bool { matches!(v, V::Bulk(_)) }
/// sort the field/value pairs of every entry-shaped array `[id, [f1, v1, f2, v2 ...]]`
/// (fields are a HashMap in the implementation: iteration order is unobservable)
fn sort_entry_fields(v: V) -> V {
    match v {
        V::Array(l) => {
            let mut l: Vec<V> = l.into_iter().map(sort_entry_fields).collect();
            if l.len() == 2 && is_bulk(&l[0]) {
                if let V::Array(f) = &l[1] {
                    if f.len() % 2 == 0 && f.iter().all(is_bulk) {
                        let mut pairs: Vec<(V, V)> = f.chunks(2).map(|c| (c[0].clone(), c[1].clone())).collect();
                        pairs.sort_by(|a, b| match (&a.0, &b.0) { (V::Bulk(x), V::Bulk(y)) => x.cmp(y), _ => std::cmp::Ordering::Equal });
                        l[1] = V::Array(pairs.into_iter().flat_map(|(k, v)| vec![k, v]).collect());
                    }
                }
            }
            V::Array(l)
        }
        x => x,
    }
}
fn second_bulk(v: &V) -> Vec<u8> {
    match v { V::Array(l) => match l.get(1) { Some(V::Bulk(b)) => b.clone(), _ => vec![] }, _ => vec![] }
}
fn first_bulk(v: &V) -> Vec<u8> {
    match v { V::Array(l) => match l.first() { Some(V::Bulk(b)) => b.clone(), _ => vec![] }, _ => vec![] }
}
/// canonical form of the replies of the stream family; mirrored by Model/Streams.v
/// [canon_streams] for the time-dependent parts (the model emits unordered parts sorted)
pub fn canon_streams(name: &[u8], v: V) -> V {
    match name {
        b"XRANGE" | b"XREVRANGE" | b"XREAD" | b"XREADGROUP" | b"XCLAIM" => sort_entry_fields(v),
        b"XPENDING" => match v {
            V::Array(mut l) => {
                // summary: [count, min, max, [[consumer, n] ...]]: consumers come from a HashMap
                if l.len() == 4 && matches!(l[0], V::Int(_)) {
                    if let V::Array(cs) = &mut l[3] { cs.sort_by(|a, b| first_bulk(a).cmp(&first_bulk(b))); }
                    return V::Array(l);
                }
                // extended: [[id, consumer, idle, deliveries] ...]: idle is wall-clock time
                V::Array(l.into_iter().map(|row| match row {
                    V::Array(r) if r.len() == 4 && is_bulk(&r[0]) && is_bulk(&r[1]) && matches!(r[2], V::Int(_)) && matches!(r[3], V::Int(_)) =>
                        V::Array(vec![r[0].clone(), r[1].clone(), V::Int(0), r[3].clone()]),
                    x => x,
                }).collect())
            }
            x => x,
        },
        b"XINFO" => match sort_entry_fields(v) {
            V::Array(l) => {
                // GROUPS / CONSUMERS: rows ["name", <name>, ...] out of a HashMap
                let rows = !l.is_empty() && l.iter().all(|r| matches!(r, V::Array(x) if x.len() >= 2 && x[0] == V::Bulk(b"name".to_vec())));
                let mut l: Vec<V> = l.into_iter().map(|row| match row {
                    V::Array(r) if r.len() == 6 && r[4] == V::Bulk(b"idle".to_vec()) && matches!(r[5], V::Int(_)) && is_bulk(&r[0]) && is_bulk(&r[1]) && is_bulk(&r[2]) && matches!(r[3], V::Int(_)) => {
                        let mut r = r; r[5] = V::Int(0); V::Array(r)
                    }
                    x => x,
                }).collect();
                if rows { l.sort_by(|a, b| second_bulk(a).cmp(&second_bulk(b))); }
                V::Array(l)
            }
            x => x,
        },
        _ => v,
    }
}

// ---------------------------------------------------------------- pools
pub const SKEYS: &[&[u8]] = &[b"x1", b"x2", b"x3", b""];
pub const STRKEY: &[u8] = b"str1";
/// explicit IDs: small, colliding, with sequence numbers, boundaries
pub const SMALL_IDS: &[&[u8]] = &[b"1-0", b"1-1", b"2-0", b"2-5", b"3-0", b"3-1", b"4-0", b"5-0", b"5-1", b"5-2", b"6-0", b"7-0",
    b"7-3", b"8-0", b"9-0", b"10-0", b"11-0", b"12-0", b"0-1", b"0-2", b"1-18446744073709551615", b"3-18446744073709551615",
    b"20-0", b"21-0", b"22-0", b"23-0", b"30-0", b"30-1", b"30-2", b"50-0"];
/// texts that are not IDs (3be45c2: an empty part or a number above u64::MAX is refused, no longer read as 0 / wrapped
/// around), special forms in the wrong place, and unusual spellings of valid IDs (leading zeros)
pub const ODD_IDS: &[&[u8]] = &[b"0-0", b"-", b"5-", b"-5", b"5", b"abc", b"5-x", b"", b"+", b"(5-0", b"18446744073709551616-0",
    b"18446744073709551617-1", b"5-18446744073709551616", b"1-2-3", b"007-01", b" 5-0", b"\xff-1", b"$", b">", b"0",
    b"--", b"5--1", b"+5-1", b"5-+1", b"99999999999999999999-1", b"1-99999999999999999999", b"18446744073709551615-18446744073709551616",
    b"184467440737095516150-0", b"00000000000000000000007-1", b"7-000000000000000000000", b"6-", b"-0", b"0-", b"5-0 ", b"5-0\n", b"5_0", b"-5-0"];
/// ahead of the wall clock (auto IDs then continue the sequence), incl. exhausted sequence
/// numbers (the next auto ID rolls over to the next millisecond) and the last possible ID
/// (XADD * is then refused) - the former crash class xadd-seq-overflow, fixed by fb507d0
pub const FUTURE_IDS: &[&[u8]] = &[b"9999999999999-0", b"9999999999999-5", b"9999999999999-6", b"18446744073709551615-0",
    b"18446744073709551615-7", b"5000000000000-0", b"9999999999999-18446744073709551615", b"9999999999999-18446744073709551614",
    b"18446744073709551615-18446744073709551615", b"18446744073709551615-18446744073709551614", b"18446744073709551614-18446744073709551615"];
pub const BOUNDS: &[&[u8]] = &[b"-", b"+", b"0-0", b"0-1", b"0-2", b"1-0", b"2-0", b"2-1", b"3-0", b"3-7", b"4-0", b"4-9", b"5-0", b"5-1",
    b"5-2", b"5-3", b"6-0", b"6-5", b"7-0", b"7-3", b"8-0", b"9-0", b"10-0", b"12-0", b"13-0", b"25-0", b"30-1", b"60-0",
    b"1700000000000-0", b"9999999999998-0", b"9999999999999-5", b"18446744073709551615-18446744073709551615",
    b"18446744073709551615-0", b"1-18446744073709551615"];
pub const COUNTS: &[&[u8]] = &[b"0", b"1", b"2", b"3", b"4", b"100", b"18446744073709551615", b"18446744073709551616", b"abc", b"-1", b"+2", b""];
pub const FIELDS: &[&[u8]] = &[b"f", b"g", b"a", b"", b"field two", b"\x00\xff"];
pub const VALS: &[&[u8]] = &[b"v", b"1", b"", b"hello world", b"\r\n", b"w"];

fn pick<'a>(r: &mut Rng, p: &'a [&'a [u8]]) -> &'a [u8] { *r.pick(p) }
fn v(x: &[u8]) -> Vec<u8> { x.to_vec() }
pub fn skey<'a>(r: &mut Rng) -> &'a [u8] {
    if r.chance(1, 16) { STRKEY } else if r.chance(1, 20) { b"nokey" } else if r.chance(1, 2) { b"x1" } else { pick(r, SKEYS) }
}
fn count_arg<'a>(r: &mut Rng) -> &'a [u8] { if r.chance(1, 6) { pick(r, COUNTS) } else { *r.pick(&[&b"0"[..], b"1", b"2", b"2", b"3", b"10"]) } }
/// (start, end) of a range read: often open on one side so that many entries qualify
fn bounds(r: &mut Rng, st: &GenSt, k: &[u8]) -> (Vec<u8>, Vec<u8>) {
    match r.below(8) { 0 | 1 => (v(b"-"), bound(r, st, k)), 2 | 3 => (bound(r, st, k), v(b"+")), 4 => (v(b"-"), v(b"+")), _ => (bound(r, st, k), bound(r, st, k)) }
}
pub fn any_id<'a>(r: &mut Rng) -> &'a [u8] {
    match r.below(20) { 0 => pick(r, ODD_IDS), 1 => pick(r, FUTURE_IDS), 2 => pick(r, BOUNDS), _ => pick(r, SMALL_IDS) }
}
/// "@n" = the n-th most recent auto-generated ID of the history (substituted by [run])
fn placeholder(r: &mut Rng) -> Vec<u8> { format!("@{}", 1 + r.below(4)).into_bytes() }
fn parse_small(b: &[u8]) -> Option<(u64, u64)> {
    let s = std::str::from_utf8(b).ok()?; let (a, c) = s.split_once('-')?; Some((a.parse().ok()?, c.parse().ok()?))
}
/// an ID the generator added before, or a neighbour of one
fn near_added(r: &mut Rng, st: &GenSt, k: &[u8]) -> Option<Vec<u8>> {
    let mine: Vec<&Vec<u8>> = st.added.iter().filter(|(kk, _)| kk == k).map(|(_, i)| i).collect();
    if mine.is_empty() { return None; }
    let idx = r.below(mine.len() as u64) as usize;
    let (ms, sq) = parse_small(mine[idx])?;
    Some(match r.below(6) {
        0 => format!("{}-{}", ms, sq + 1), 1 => format!("{}-18446744073709551615", ms.saturating_sub(1)),
        2 => format!("{}-{}", ms, sq.saturating_sub(1)), _ => format!("{}-{}", ms, sq),
    }.into_bytes())
}
fn bound(r: &mut Rng, st: &GenSt, k: &[u8]) -> Vec<u8> {
    match r.below(14) {
        0 => v(pick(r, ODD_IDS)),
        1..=5 => near_added(r, st, k).unwrap_or_else(|| v(pick(r, BOUNDS))),
        6 if st.auto_share > 0 => placeholder(r),
        _ => v(pick(r, BOUNDS)),
    }
}
fn del_id(r: &mut Rng, st: &GenSt, k: &[u8]) -> Vec<u8> {
    match r.below(16) {
        0 => v(pick(r, ODD_IDS)), 1 => v(pick(r, BOUNDS)), 2 => v(pick(r, SMALL_IDS)), 3 | 4 if st.auto_share > 0 => placeholder(r),
        _ => near_added(r, st, k).unwrap_or_else(|| v(pick(r, SMALL_IDS))),
    }
}

/// per-case state of the generator: an ascending counter so that most explicit XADDs succeed
pub struct GenSt { pub next_ms: u64, pub auto_share: u64, pub added: Vec<(Vec<u8>, Vec<u8>)> }

pub fn gen_xadd(r: &mut Rng, st: &mut GenSt, k: &[u8]) -> Vec<Vec<u8>> {
    let id: Vec<u8> = if r.below(100) < st.auto_share { v(b"*") } else {
        match r.below(12) {
            0 => v(pick(r, ODD_IDS)),
            1 => if r.chance(1, 3) { v(pick(r, FUTURE_IDS)) } else { v(pick(r, SMALL_IDS)) },
            2 | 3 | 4 => v(pick(r, SMALL_IDS)),
            _ => { // ascending: mostly accepted
                st.next_ms += r.below(3);
                let seq = *r.pick(&[0u64, 0, 0, 1, 2, 5]);
                let id = format!("{}-{}", st.next_ms, seq).into_bytes();
                st.added.push((k.to_vec(), id.clone())); id
            }
        }
    };
    let mut c = vec![v(b"XADD"), v(k), id];
    let nf = match r.below(10) { 0 => 2, 1 => 3, _ => 1 };
    for _ in 0..nf { c.push(v(pick(r, FIELDS))); c.push(v(pick(r, VALS))); }
    if r.chance(1, 25) { c.pop(); }            // odd number of field arguments
    if r.chance(1, 40) { c.truncate(3); }      // no fields
    c
}

pub fn gen_cmd(r: &mut Rng, st: &mut GenSt) -> Vec<Vec<u8>> {
    let k = skey(r);
    match r.below(40) {
        0..=9 => gen_xadd(r, st, k),
        10..=14 => { // XRANGE
            let (lo, hi) = bounds(r, st, k);
            let mut c = vec![v(b"XRANGE"), v(k), lo, hi];
            match r.below(8) { 0 | 1 | 2 => { c.push(v(if r.chance(1, 2) { b"COUNT" } else { b"count" })); c.push(v(count_arg(r))); }
                               3 => c.push(v(count_arg(r))), 4 => { c.push(v(b"LIMIT")); c.push(v(b"1")); } _ => {} }
            c
        }
        15..=18 => { // XREVRANGE key end start
            let (lo, hi) = bounds(r, st, k);
            let mut c = vec![v(b"XREVRANGE"), v(k), hi, lo];
            match r.below(8) { 0 | 1 => { c.push(v(b"COUNT")); c.push(v(count_arg(r))); } 2 | 3 => c.push(v(count_arg(r))),
                               4 => { c.push(v(b"COUNT")); c.push(v(b"1")); c.push(v(b"extra")); } _ => {} }
            c
        }
        19 | 20 => vec![v(b"XLEN"), v(k)],
        21..=24 => { // XREAD
            let mut c = vec![v(b"XREAD")];
            if r.chance(1, 2) { c.push(v(b"COUNT")); c.push(v(count_arg(r))); }
            if r.chance(1, 8) { c.push(v(b"BLOCK")); c.push(v(*r.pick(&[&b"0"[..], b"10", b"x"]))); }
            if r.chance(1, 30) { c.push(v(b"NOACK")); }
            c.push(v(if r.chance(1, 6) { b"streams" } else { b"STREAMS" }));
            let n = 1 + r.below(3);
            let keys: Vec<&[u8]> = (0..n).map(|_| skey(r)).collect();
            for kk in &keys { c.push(v(kk)); }
            for _ in 0..n { c.push(match r.below(12) { 0 => v(b"$"), 1 | 2 => v(b"0"), 3 => v(b"0-0"), 4 => v(pick(r, ODD_IDS)), _ => bound(r, st, keys[0]) }); }
            if r.chance(1, 25) { c.pop(); }
            c
        }
        25..=27 => { // XTRIM
            let n = *r.pick(&[&b"0"[..], b"1", b"1", b"2", b"2", b"3", b"3", b"5", b"100", b"abc", b"-1", b"18446744073709551615"]);
            match r.below(14) {
                0 => vec![v(b"XTRIM"), v(k), v(b"MAXLEN"), v(b"~"), v(n)],
                1 => vec![v(b"XTRIM"), v(k), v(b"maxlen"), v(b"="), v(n)],
                2 => vec![v(b"XTRIM"), v(k), v(b"MAXLEN"), v(n), v(b"junk")],
                3 => vec![v(b"XTRIM"), v(k), v(*r.pick(&[&b"MINID"[..], b"MAXLEN"])), v(*r.pick(&[&b"~"[..], b"=", b"x"]))],
                4 => vec![v(b"XTRIM"), v(k), v(b"MAXLEN"), v(b"~"), v(n), v(b"extra")],
                _ => vec![v(b"XTRIM"), v(k), v(b"MAXLEN"), v(n)],
            }
        }
        28..=31 => { // XDEL
            let mut c = vec![v(b"XDEL"), v(k)];
            for _ in 0..(1 + r.below(3)) { c.push(del_id(r, st, k)); }
            if r.chance(1, 4) { let d = c[2].clone(); c.push(d); }
            c
        }
        32 => vec![v(b"DEL"), v(k)],
        33 => vec![v(b"RENAME"), v(k), v(skey(r))],
        34 => vec![v(b"TYPE"), v(k)],
        35 => vec![v(b"SET"), v(STRKEY), v(b"s")],
        36 => match r.below(8) { // arity / malformed
            0 => vec![v(b"XADD"), v(k)], 1 => vec![v(b"XRANGE"), v(k), v(b"-")], 2 => vec![v(b"XLEN")], 3 => vec![v(b"XLEN"), v(k), v(k)],
            4 => vec![v(b"XREAD"), v(b"STREAMS"), v(k)], 5 => vec![v(b"XDEL"), v(k)], 6 => vec![v(b"XTRIM"), v(k), v(b"MAXLEN")],
            _ => vec![v(b"XREAD"), v(b"COUNT"), v(b"1"), v(b"STREAMS")],
        },
        37 => vec![v(b"XINFO"), v(b"STREAM"), v(k)],
        38 => { // a burst of auto IDs within one millisecond
            gen_xadd(r, &mut GenSt { next_ms: 0, auto_share: 100, added: vec![] }, k)
        }
        _ => vec![v(b"XREVRANGE"), v(k), v(b"+"), v(b"-"), v(b"COUNT"), v(b"1")],
    }
}

pub const GROUPS: &[&[u8]] = &[b"g1", b"g2"];
pub fn dump_ops(conn: i64, keys: &[&[u8]], ops: &mut Vec<Vec<Tok>>) {
    for k in keys {
        ops.push(cmd_op(conn, &[b"TYPE", k]));
        ops.push(cmd_op(conn, &[b"XLEN", k]));
        ops.push(cmd_op(conn, &[b"XRANGE", k, b"-", b"+"]));
        ops.push(cmd_op(conn, &[b"XINFO", b"STREAM", k]));
        ops.push(cmd_op(conn, &[b"XINFO", b"GROUPS", k]));
        for g in GROUPS {
            ops.push(cmd_op(conn, &[b"XPENDING", k, g]));
            ops.push(cmd_op(conn, &[b"XPENDING", k, g, b"-", b"+", b"1000"]));
            ops.push(cmd_op(conn, &[b"XINFO", b"CONSUMERS", k, g]));
            // the per-consumer index, consumer by consumer
            for c in [&b"c1"[..], b"c2", b"c3", b"c9"] { ops.push(cmd_op(conn, &[b"XPENDING", k, g, b"-", b"+", b"1000", c])); }
        }
        ops.push(cmd_op(conn, &[b"PTTL", k]));
    }
    ops.push(cmd_op(conn, &[b"KEYS", b"*"]));
    ops.push(cmd_op(conn, &[b"DBSIZE"]));
}

/// push a command, occasionally with one argument replaced by a non-bulk frame
pub fn push_cmd(r: &mut Rng, ops: &mut Vec<Vec<Tok>>, c: &[Vec<u8>]) {
    if r.chance(1, 40) && c.len() >= 2 {
        let pos = 1 + r.below(c.len() as u64 - 1) as usize;
        let mut fr: Vec<V> = c.iter().map(|a| V::Bulk(a.clone())).collect();
        fr[pos] = if r.chance(1, 2) { V::Int(5) } else { V::NullBulk };
        ops.push(cmd_frame_op(1, &V::Array(fr)));
    } else {
        let refs: Vec<&[u8]> = c.iter().map(|x| &x[..]).collect();
        ops.push(cmd_op(1, &refs));
    }
}

pub fn gen(seed: u64, n: usize, _tier: &str) -> Vec<Case> {
    let mut r = Rng::new(seed);
    let mut cases = vec![];
    // the generator of `*` against explicit IDs at or ahead of the clock: several explicit IDs within one
    // millisecond (rising sequence numbers), then bursts of `*`, duplicates and smaller IDs that must be
    // refused, deletions/trims of the top entry in between, ranges and lengths after every phase
    for (id, ms) in [&b"9999999999999"[..], b"5000000000000", b"18446744073709551615", b"18446744073709551614"].iter().enumerate() {
        let mut ops = vec![conn_op(1)];
        let idf = |seq: u64| -> Vec<u8> { let mut x = ms.to_vec(); x.push(b'-'); x.extend(seq.to_string().bytes()); x };
        let mut seqs: Vec<u64> = vec![r.below(4)]; for _ in 0..(1 + r.below(3)) { let l = *seqs.last().unwrap(); seqs.push(l + 1 + r.below(7)); }
        for k in [&b"x1"[..], b"x2"] {
            for q in &seqs { ops.push(cmd_op(1, &[b"XADD", k, &idf(*q), b"f", b"v"])); }
            for _ in 0..(1 + r.below(3)) { ops.push(cmd_op(1, &[b"XADD", k, b"*", b"f", b"auto"])); }
            ops.push(cmd_op(1, &[b"XADD", k, &idf(*seqs.last().unwrap()), b"f", b"dup"]));
            ops.push(cmd_op(1, &[b"XADD", k, &idf(seqs[0]), b"f", b"old"]));
            ops.push(cmd_op(1, &[b"XLEN", k])); ops.push(cmd_op(1, &[b"XRANGE", k, b"-", b"+"])); ops.push(cmd_op(1, &[b"XREVRANGE", k, b"+", b"-", b"COUNT", b"2"]));
            if k == b"x2" { ops.push(cmd_op(1, &[b"XTRIM", k, b"MAXLEN", b"1"])); } else { ops.push(cmd_op(1, &[b"XDEL", k, &idf(*seqs.last().unwrap())])); }
            ops.push(cmd_op(1, &[b"XADD", k, b"*", b"f", b"after"]));
            ops.push(cmd_op(1, &[b"XADD", k, &idf(seqs.last().unwrap() + 1), b"f", b"late"]));
            ops.push(cmd_op(1, &[b"XADD", k, b"*", b"f", b"after2"]));
            ops.push(cmd_op(1, &[b"XRANGE", k, &idf(0), b"+"])); ops.push(cmd_op(1, &[b"XREAD", b"STREAMS", k, &idf(seqs[0])]));
        }
        let mut keys: Vec<&[u8]> = SKEYS.to_vec(); keys.push(STRKEY);
        dump_ops(1, &keys, &mut ops);
        cases.push(Case { id: format!("fut-{}", id), ops, outs: vec![] });
    }
    for id in 0..n {
        let mut ops = vec![conn_op(1)];
        let mut st = GenSt { next_ms: 1, auto_share: *r.pick(&[0u64, 0, 5, 15, 40, 90]), added: vec![] };
        let big = r.chance(1, 3); let len = 4 + r.below(if big { 120 } else { 40 });
        for _ in 0..len {
            let c = if r.chance(1, 30) { crate::c16::gen_group_cmd(&mut r, &mut st) } else { gen_cmd(&mut r, &mut st) };
            let burst = c.len() > 2 && c[0] == b"XADD" && c[2] == b"*" && r.chance(1, 3);
            push_cmd(&mut r, &mut ops, &c);
            if burst { for _ in 0..(1 + r.below(4)) { push_cmd(&mut r, &mut ops, &c); } }
        }
        let mut keys: Vec<&[u8]> = SKEYS.to_vec(); keys.push(STRKEY);
        dump_ops(1, &keys, &mut ops);
        cases.push(Case { id: format!("h-{}", id), ops, outs: vec![] });
    }
    cases
}

/// one run on a fresh server; "@n" arguments become the n-th most recent ID returned by `XADD key *`
fn run_once(c: &Case) -> (Case, bool) {
    let mut r = Runner::new(&SrvOpts::default());
    let mut out = Case { id: c.id.clone(), ops: vec![], outs: vec![] };
    let mut autos: Vec<Vec<u8>> = vec![];
    let mut closed = false;
    for op in &c.ops {
        let mut op2 = op.clone();
        let mut is_auto = false;
        if !op.is_empty() && tok_bytes(&op[0]) == b"CMD" {
            let mut pos = 3;
            if let Some(V::Array(l)) = V::dec(op, &mut pos) {
                let l2: Vec<V> = l.iter().map(|a| match a {
                    V::Bulk(b) if b.len() == 2 && b[0] == b'@' && (b'1'..=b'9').contains(&b[1]) => {
                        let n = (b[1] - b'0') as usize;
                        if autos.len() >= n { V::Bulk(autos[autos.len() - n].clone()) } else { a.clone() }
                    }
                    x => x.clone(),
                }).collect();
                is_auto = l2.len() > 2 && matches!(&l2[0], V::Bulk(b) if b.eq_ignore_ascii_case(b"XADD")) && l2[2] == V::Bulk(b"*".to_vec());
                op2 = op[..3].to_vec(); V::Array(l2).enc(&mut op2);
            }
        }
        let (o2, res) = r.op(&op2);
        if is_auto { let mut p = 0; if let Some(V::Bulk(id)) = V::dec(&res, &mut p) { autos.push(id); } }
        if res == vec![b("CLOSED")] { closed = true; }
        out.ops.push(o2); out.outs.push(res);
    }
    // a connection closed by the server usually means the process is exiting: let it finish
    if closed { std::thread::sleep(std::time::Duration::from_millis(200)); }
    // a timed-out or refused connection under machine load is retried like clock drift
    let flaky = out.outs.iter().any(|o| *o == vec![b("TIMEOUT")] || *o == vec![b("NOCONN")]) || out.outs.first() == Some(&vec![i(0)]);
    let drift = r.drift_bad || flaky;
    if !r.finish() { out.ops.push(vec![b("ALIVE")]); out.outs.push(vec![i(0)]); }
    (out, drift)
}
/// a case whose real time drifted from the logical clock is re-run (idle thresholds)
pub fn run(c: &Case) -> Case {
    let mut last = run_once(c);
    for _ in 0..3 { if !last.1 { break; } last = run_once(c); }
    last.0
}

// ---------------------------------------------------------------- property oracle
// Independent of the Coq model: a BTreeMap reference of each stream, driven by the
// implementation's own replies (an XADD counts when the reply is an ID).
use std::collections::{BTreeMap, HashMap};
type Id = (u64, u64);
fn parse_id_strict(b: &[u8]) -> Option<Id> {
    let s = std::str::from_utf8(b).ok()?;
    let (a, c) = s.split_once('-')?;
    if a.is_empty() || c.is_empty() || !a.bytes().all(|x| x.is_ascii_digit()) || !c.bytes().all(|x| x.is_ascii_digit()) { return None; }
    Some((a.parse().ok()?, c.parse().ok()?))
}
fn bulk_args(req: &V) -> Option<Vec<Vec<u8>>> {
    match req { V::Array(l) => l.iter().map(|x| match x { V::Bulk(b) => Some(b.clone()), _ => None }).collect(), _ => None }
}
fn entry_ids(v: &V) -> Option<Vec<Id>> {
    match v { V::Array(l) => l.iter().map(|e| match e { V::Array(p) if p.len() == 2 => match &p[0] { V::Bulk(b) => parse_id_strict(b), _ => None }, _ => None }).collect(), _ => None }
}
#[derive(Default)]
struct RefStream { entries: BTreeMap<Id, Vec<(Vec<u8>, Vec<u8>)>>, max_ever: Option<Id> }

pub fn judge(c: &Case, outs: &[Vec<Tok>]) -> Vec<String> {
    let mut fails = vec![];
    let mut db: HashMap<Vec<u8>, RefStream> = HashMap::new();
    let mut unknown: std::collections::HashSet<Vec<u8>> = Default::default(); // keys the oracle lost track of
    for (k, op) in c.ops.iter().enumerate() {
        if op.is_empty() || tok_bytes(&op[0]) != b"CMD" { continue; }
        let mut pos = 3;
        let req = match V::dec(op, &mut pos) { Some(r) => r, None => continue };
        let out = match outs.get(k) { Some(o) => o, None => continue };
        let mut p2 = 0;
        let rep = match V::dec(out, &mut p2) { Some(r) => r, None => continue };
        let a = match bulk_args(&req) { Some(a) if !a.is_empty() => a, _ => continue };
        let name = a[0].to_ascii_uppercase();
        let mut fail = |what: String| fails.push(format!("FAIL case={} op={} {}", c.id, k, what));
        match &name[..] {
            b"XADD" if a.len() >= 5 => {
                let key = a[1].clone();
                if unknown.contains(&key) { continue; }
                if let V::Bulk(idb) = &rep {
                    let id = match parse_id_strict(idb) { Some(i) => i, None => { fail("XADD reply is not an ID".into()); continue } };
                    let s = db.entry(key).or_default();
                    if let Some(m) = s.max_ever { if id <= m { fail(format!("XADD returned {:?} not greater than {:?} added before", id, m)); } }
                    if a[2] != b"*" && parse_id_strict(&a[2]) != Some(id) {
                        fail(format!("XADD {:?} stored as {:?}: the ID text does not denote that ID", String::from_utf8_lossy(&a[2]), id));
                    }
                    let mut f: Vec<(Vec<u8>, Vec<u8>)> = vec![];
                    for ch in a[3..].chunks(2) { if ch.len() == 2 { f.push((ch[0].clone(), ch[1].clone())); } }
                    f.sort();
                    s.entries.insert(id, f); s.max_ever = Some(s.max_ever.map_or(id, |m| m.max(id)));
                } else if let V::Error(_) = &rep {
                    // an explicit ID greater than every ID ever added must be accepted
                    if let (Some(x), Some(s)) = (parse_id_strict(&a[2]), db.get(&a[1])) {
                        if x > (0, 0) && s.max_ever.map_or(true, |m| x > m) && (a.len() - 3) % 2 == 0 { fail(format!("XADD {:?} refused although greater than every earlier ID", x)); }
                    }
                }
            }
            b"XDEL" if a.len() >= 3 => {
                if unknown.contains(&a[1]) { continue; }
                let ids: Option<Vec<Id>> = a[2..].iter().map(|x| parse_id_strict(x)).collect();
                // ID text is exact: a text that is not <u64>-<u64> must be refused, whatever the key holds
                if ids.is_none() && !matches!(rep, V::Error(_)) { fail("XDEL accepted a text that is not an ID".to_string()); }
                if let (V::Int(n), Some(s)) = (&rep, db.get_mut(&a[1])) {
                    if let Some(ids) = ids {
                        let mut cnt = 0; for i in ids { if s.entries.remove(&i).is_some() { cnt += 1; } }
                        if cnt != *n { fail(format!("XDEL answered {} but {} listed entries were present", n, cnt)); }
                    } else { unknown.insert(a[1].clone()); }
                }
            }
            b"XTRIM" => {
                if let (V::Int(n), Some(s)) = (&rep, db.get_mut(&a[1])) {
                    if a.len() == 4 { if let Some(m) = std::str::from_utf8(&a[3]).ok().and_then(|t| t.parse::<usize>().ok()) {
                        let want = s.entries.len().saturating_sub(m) as i64;
                        if !unknown.contains(&a[1]) && want != *n { fail(format!("XTRIM MAXLEN {} on {} entries answered {}", m, s.entries.len(), n)); }
                    } }
                    for _ in 0..*n { let f = s.entries.keys().next().cloned(); if let Some(f) = f { s.entries.remove(&f); } }
                }
            }
            b"DEL" | b"SET" => { for x in &a[1..] { db.remove(x); unknown.remove(x); } }
            b"RENAME" if a.len() == 3 => {
                if let V::Simple(_) = &rep {
                    let was_unknown = unknown.remove(&a[1]);
                    match db.remove(&a[1]) { Some(s) => { db.insert(a[2].clone(), s); } None => { db.remove(&a[2]); } }
                    if was_unknown { unknown.insert(a[2].clone()); } else { unknown.remove(&a[2]); }
                }
            }
            b"FLUSHDB" | b"FLUSHALL" => { db.clear(); unknown.clear(); }
            b"XLEN" if a.len() == 2 => {
                if let (V::Int(n), Some(s)) = (&rep, db.get(&a[1])) { if !unknown.contains(&a[1]) && *n != s.entries.len() as i64 { fail(format!("XLEN {} but {} entries present", n, s.entries.len())); } }
            }
            b"XRANGE" | b"XREVRANGE" if a.len() >= 4 => {
                if unknown.contains(&a[1]) { continue; }
                let revr = name == b"XREVRANGE";
                let (sb, eb) = if revr { (&a[3], &a[2]) } else { (&a[2], &a[3]) };
                let st = if sb == b"-" { Some((0, 0)) } else { parse_id_strict(sb) };
                let en = if eb == b"+" { Some((u64::MAX, u64::MAX)) } else { parse_id_strict(eb) };
                if (st.is_none() || en.is_none()) && matches!(rep, V::Array(_)) { fail(format!("{} accepted a bound that is not an ID", String::from_utf8_lossy(&name))); }
                let count: Option<usize> = if a.len() == 6 && a[4].to_ascii_uppercase() == b"COUNT" { match std::str::from_utf8(&a[5]).ok().and_then(|t| t.parse().ok()) { Some(n) => Some(n), None => continue } } else if a.len() == 4 { None } else { continue };
                if let (Some(st), Some(en), Some(got), Some(s)) = (st, en, entry_ids(&rep), db.get(&a[1])) {
                    let mut want: Vec<Id> = s.entries.keys().filter(|i| st <= **i && **i <= en).cloned().collect();
                    if revr { want.reverse(); }
                    if let Some(cn) = count { want.truncate(cn); }
                    if got != want {
                        let first = s.entries.keys().next().cloned();
                        let class = if first.map_or(false, |f| en < f && st <= f) { "class=xrange-end-below-first " } else { "" };
                        fail(format!("{}{} {:?}..{:?} count {:?} returned {:?}, present entries in range are {:?}", class, String::from_utf8_lossy(&name), st, en, count, got, want));
                    } else if let V::Array(l) = &rep {
                        // entries keep their field-value pairs
                        for e in l { if let V::Array(p) = e { if let (V::Bulk(ib), V::Array(fv)) = (&p[0], &p[1]) {
                            let mut f: Vec<(Vec<u8>, Vec<u8>)> = fv.chunks(2).filter_map(|c| match (&c[0], c.get(1)) { (V::Bulk(x), Some(V::Bulk(y))) => Some((x.clone(), y.clone())), _ => None }).collect();
                            f.sort();
                            if let Some(w) = parse_id_strict(ib).and_then(|i| s.entries.get(&i)) { if *w != f {
                                let dup = w.windows(2).any(|p| p[0].0 == p[1].0);
                                fail(format!("{}entry {} came back with other fields", if dup { "class=xadd-duplicate-fields " } else { "" }, String::from_utf8_lossy(ib))); } }
                        } } }
                    }
                }
            }
            _ => {}
        }
    }
    fails
}
