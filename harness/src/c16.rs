//! C16: consumer groups (XGROUP XREADGROUP XACK XCLAIM XPENDING XINFO), histories over
//! TCP against the model; property oracle on the implementation's replies.
use crate::c15::{dump_ops, gen_xadd, push_cmd, GenSt, GROUPS, SMALL_IDS, ODD_IDS, COUNTS, STRKEY};
use crate::resp::V;
use crate::rng::Rng;
use crate::srv::*;
use crate::tok::*;

pub const GKEYS: &[&[u8]] = &[b"x1", b"x2"];
pub const CONSUMERS: &[&[u8]] = &[b"c1", b"c2", b"c3"];
/// 0 / 200 / never: separated from the harness's clock drift (<= 80 ms) by the 450 ms sleeps
pub const MIN_IDLE: &[&[u8]] = &[b"0", b"0", b"0", b"200", b"200", b"1000000", b"18446744073709551615", b"abc", b"-1"];

fn pick<'a>(r: &mut Rng, p: &'a [&'a [u8]]) -> &'a [u8] { *r.pick(p) }
fn v(x: &[u8]) -> Vec<u8> { x.to_vec() }
fn gkey<'a>(r: &mut Rng) -> &'a [u8] { if r.chance(1, 30) { STRKEY } else if r.chance(1, 30) { b"nokey" } else if r.chance(2, 3) { b"x1" } else { b"x2" } }
fn grp<'a>(r: &mut Rng) -> &'a [u8] { if r.chance(1, 25) { b"nogroup" } else if r.chance(2, 3) { b"g1" } else { b"g2" } }
fn cons<'a>(r: &mut Rng) -> &'a [u8] { if r.chance(1, 20) { b"c9" } else { pick(r, CONSUMERS) } }
/// IDs that are probably in the stream / pending: the ones this history added to the key
fn recent_id(r: &mut Rng, st: &GenSt, k: &[u8]) -> Vec<u8> {
    if r.chance(1, 12) { return v(pick(r, SMALL_IDS)); }
    if r.chance(1, 30) { return v(pick(r, ODD_IDS)); }
    let mine: Vec<&Vec<u8>> = st.added.iter().filter(|(kk, _)| kk == k).map(|(_, i)| i).collect();
    if mine.is_empty() { return format!("{}-0", 1 + r.below(st.next_ms + 1)).into_bytes(); }
    // favour the older ones: they are the likelier to have been delivered already
    let idx = if r.chance(1, 2) { r.below(mine.len() as u64 / 2 + 1) } else { r.below(mine.len() as u64) } as usize;
    mine[idx].clone()
}

pub fn gen_group_cmd(r: &mut Rng, st: &mut GenSt) -> Vec<Vec<u8>> {
    let k = gkey(r); let g = grp(r); let c = cons(r);
    match r.below(60) {
        44..=51 => gen_xadd(r, st, k),
        52..=57 => { // XREADGROUP >, plain
            let mut cmd = vec![v(b"XREADGROUP"), v(b"GROUP"), v(g), v(c)];
            if r.chance(2, 3) { cmd.push(v(b"COUNT")); cmd.push(v(*r.pick(&[&b"1"[..], b"2", b"3"]))); }
            cmd.push(v(b"STREAMS")); cmd.push(v(k)); cmd.push(v(b">")); cmd
        }
        58 => { let mut cmd = vec![v(b"XCLAIM"), v(k), v(g), v(c), v(b"0")]; for _ in 0..(1 + r.below(3)) { cmd.push(recent_id(r, st, k)); } cmd }
        59 => { let mut cmd = vec![v(b"XACK"), v(k), v(g)]; for _ in 0..(1 + r.below(2)) { cmd.push(recent_id(r, st, k)); } cmd }
        0..=2 => { // XGROUP CREATE
            let id = *r.pick(&[&b"0"[..], b"0", b"0", b"$", b"$", b"0-0", b"3-0", b"abc", b"5"]);
            let mut cmd = vec![v(b"XGROUP"), v(if r.chance(1, 5) { b"create" } else { b"CREATE" }), v(k), v(g), v(id)];
            if r.chance(1, 3) { cmd.push(v(if r.chance(1, 6) { b"MKSTREAMS" } else { b"MKSTREAM" })); }
            if r.chance(1, 25) { cmd.truncate(4); }
            cmd
        }
        3 => if r.chance(1, 2) { vec![v(b"XGROUP"), v(b"DESTROY"), v(k), v(g)] } else { vec![v(b"XINFO"), v(b"GROUPS"), v(k)] },
        4 => vec![v(b"XPENDING"), v(k), v(g)],
        5 | 6 => vec![v(b"XGROUP"), v(b"CREATECONSUMER"), v(k), v(g), v(c)],
        7 | 8 => vec![v(b"XGROUP"), v(b"DELCONSUMER"), v(k), v(g), v(c)],
        9 => { // SETID
            let id = if r.chance(1, 2) { v(*r.pick(&[&b"$"[..], b"0-0", b"0", b"abc", b"100-0", b"9999999999999-0"])) } else { recent_id(r, st, k) };
            vec![v(b"XGROUP"), v(b"SETID"), v(k), v(g), id]
        }
        10..=19 => { // XREADGROUP
            let mut cmd = vec![v(b"XREADGROUP"), v(if r.chance(1, 30) { b"GROUPS" } else { b"GROUP" }), v(g), v(c)];
            if r.chance(1, 2) { cmd.push(v(b"COUNT")); cmd.push(v(if r.chance(1, 6) { pick(r, COUNTS) } else { *r.pick(&[&b"1"[..], b"2", b"3"]) })); }
            if r.chance(1, 10) { cmd.push(v(b"BLOCK")); cmd.push(v(*r.pick(&[&b"0"[..], b"50", b"x"]))); }
            if r.chance(1, 8) { cmd.push(v(if r.chance(1, 4) { b"noack" } else { b"NOACK" })); }
            if r.chance(1, 40) { cmd.push(v(b"BOGUS")); }
            cmd.push(v(b"STREAMS"));
            let n = if r.chance(1, 5) { 2 } else { 1 };
            let keys: Vec<&[u8]> = (0..n).map(|j| if j == 0 { k } else { gkey(r) }).collect();
            for kk in &keys { cmd.push(v(kk)); }
            for _ in 0..n {
                cmd.push(match r.below(12) { 0 => v(b"0"), 1 => recent_id(r, st, k), 2 => v(b"0-0"), 3 => v(*r.pick(&[&b"$"[..], b"abc", b"18446744073709551615-18446744073709551615"])), _ => v(b">") });
            }
            if r.chance(1, 30) { cmd.pop(); }
            cmd
        }
        20..=24 => { // XACK
            let mut cmd = vec![v(b"XACK"), v(k), v(g)];
            for _ in 0..(1 + r.below(3)) { cmd.push(recent_id(r, st, k)); }
            if r.chance(1, 4) { let d = cmd[3].clone(); cmd.push(d); }
            if r.chance(1, 30) { cmd.truncate(3); }
            cmd
        }
        25..=29 => { // XCLAIM
            let mut cmd = vec![v(b"XCLAIM"), v(k), v(g), v(c), v(pick(r, MIN_IDLE))];
            for _ in 0..(1 + r.below(3)) { cmd.push(recent_id(r, st, k)); }
            if r.chance(1, 6) { let d = cmd[5].clone(); cmd.push(d); }
            if r.chance(1, 4) { cmd.push(v(b"FORCE")); }
            if r.chance(1, 4) { cmd.push(v(if r.chance(1, 4) { b"justid" } else { b"JUSTID" })); }
            if r.chance(1, 10) { cmd.push(v(*r.pick(&[&b"IDLE"[..], b"TIME", b"RETRYCOUNT"]))); if r.chance(3, 4) { cmd.push(v(b"5")); } }
            if r.chance(1, 30) { cmd.truncate(5); }
            cmd
        }
        30..=32 => vec![v(b"XPENDING"), v(k), v(g)],
        33..=35 => { // extended XPENDING; mostly start <= end, sometimes inverted (former crash class
                     // xpending-inverted-range, fixed by 8b811fd)
            let (a, b) = (1 + r.below(st.next_ms + 2), 1 + r.below(st.next_ms + 2));
            let (lo, hi) = (a.min(b), a.max(b));
            let start = if r.chance(1, 2) { v(b"-") } else { format!("{}-0", lo).into_bytes() };
            let end = if r.chance(1, 2) { v(b"+") } else { format!("{}-5", hi).into_bytes() };
            let mut cmd = vec![v(b"XPENDING"), v(k), v(g), start, end, v(*r.pick(&[&b"10"[..], b"1", b"2", b"0", b"abc", b"18446744073709551615"]))];
            if r.chance(1, 3) { cmd.push(v(c)); }
            if r.chance(1, 5) { cmd[3] = v(*r.pick(&[&b"9-0"[..], b"7-0", b"18446744073709551615-0"])); cmd[4] = v(*r.pick(&[&b"2-0"[..], b"5-0", b"0-0"])); }
            if r.chance(1, 20) { cmd[3] = v(b"junk"); }
            if r.chance(1, 30) { cmd.truncate(5); }
            cmd
        }
        36 => vec![v(b"XINFO"), v(b"GROUPS"), v(k)],
        37 => vec![v(b"XINFO"), v(b"CONSUMERS"), v(k), v(g)],
        38 => match r.below(5) { 0 => vec![v(b"XINFO"), v(b"HELP")], 1 => vec![v(b"XGROUP"), v(b"HELP")], 2 => vec![v(b"XINFO"), v(b"BOGUS"), v(k)],
                                 3 => vec![v(b"XGROUP"), v(b"BOGUS"), v(k)], _ => vec![v(b"XINFO"), v(b"stream"), v(k), v(b"FULL")] },
        39 => { let mut cmd = vec![v(b"XDEL"), v(k)]; cmd.push(recent_id(r, st, k)); cmd }
        40 => vec![v(b"XTRIM"), v(k), v(b"MAXLEN"), v(*r.pick(&[&b"0"[..], b"2", b"5"]))],
        41 => match r.below(4) { 0 => vec![v(b"DEL"), v(k)], 1 => vec![v(b"RENAME"), v(k), v(gkey(r))], 2 => vec![v(b"SET"), v(STRKEY), v(b"s")], _ => vec![v(b"XLEN"), v(k)] },
        _ => gen_xadd(r, st, k),
    }
}

/// scripted sequences for the repaired classes (da451f0, 92eb72a, 3384736): a history read by the owner and by
/// another consumer with COUNT; SETID backwards, then ">" by another consumer, then XACK / XPENDING / XINFO; a
/// multi-key XREADGROUP that fails on a later key (NOGROUP, bad ID, WRONGTYPE), then the probes that show
/// whether the earlier key was served
fn gen_scenario(r: &mut Rng, st: &mut GenSt) -> Vec<Vec<Vec<u8>>> {
    let k: &[u8] = if r.chance(2, 3) { b"x1" } else { b"x2" };
    let g: &[u8] = if r.chance(3, 4) { b"g1" } else { b"g2" };
    let c1 = pick(r, CONSUMERS); let c2 = pick(r, CONSUMERS);
    let cnt = |r: &mut Rng, cmd: &mut Vec<Vec<u8>>| { if r.chance(1, 2) { cmd.push(v(b"COUNT")); cmd.push(v(*r.pick(&[&b"1"[..], b"2", b"3", b"0", b"100"]))); } };
    let mut out = vec![];
    match r.below(4) {
        3 => { // claim by another consumer, then the previous owner is deleted: the claimed entry stays pending for the claimer
            let mut a = vec![v(b"XREADGROUP"), v(b"GROUP"), v(g), v(c1)]; cnt(r, &mut a); a.extend([v(b"STREAMS"), v(k), v(b">")]); out.push(a);
            let mut a = vec![v(b"XCLAIM"), v(k), v(g), v(c2), v(b"0")]; for _ in 0..(1 + r.below(3)) { a.push(recent_id(r, st, k)); }
            if r.chance(1, 4) { a.push(v(b"JUSTID")); } out.push(a);
            out.push(vec![v(b"XPENDING"), v(k), v(g), v(b"-"), v(b"+"), v(b"100")]);
            out.push(vec![v(b"XGROUP"), v(b"DELCONSUMER"), v(k), v(g), v(c1)]);
            out.push(vec![v(b"XPENDING"), v(k), v(g)]);
            out.push(vec![v(b"XPENDING"), v(k), v(g), v(b"-"), v(b"+"), v(b"100")]);
            out.push(vec![v(b"XREADGROUP"), v(b"GROUP"), v(g), v(c2), v(b"STREAMS"), v(k), v(b"0")]);
            let mut a = vec![v(b"XACK"), v(k), v(g)]; for _ in 0..(1 + r.below(3)) { a.push(recent_id(r, st, k)); } out.push(a);
            out.push(vec![v(b"XPENDING"), v(k), v(g)]);
            out.push(vec![v(b"XINFO"), v(b"CONSUMERS"), v(k), v(g)]);
        }
        0 => { // own history
            let mut a = vec![v(b"XREADGROUP"), v(b"GROUP"), v(g), v(c1)]; cnt(r, &mut a); a.extend([v(b"STREAMS"), v(k), v(b">")]); out.push(a);
            for who in [c1, c2, c1] {
                let mut a = vec![v(b"XREADGROUP"), v(b"GROUP"), v(g), v(who)]; cnt(r, &mut a);
                if r.chance(1, 6) { a.push(v(b"NOACK")); }
                let id = match r.below(4) { 0 => v(b"0"), 1 => v(b"0-0"), _ => recent_id(r, st, k) };
                a.extend([v(b"STREAMS"), v(k), id]); out.push(a);
            }
            out.push(vec![v(b"XPENDING"), v(k), v(g), v(b"-"), v(b"+"), v(b"100")]);
            out.push(vec![v(b"XINFO"), v(b"CONSUMERS"), v(k), v(g)]);
        }
        1 => { // SETID backwards and re-delivery to another consumer
            let mut a = vec![v(b"XREADGROUP"), v(b"GROUP"), v(g), v(c1)]; cnt(r, &mut a); a.extend([v(b"STREAMS"), v(k), v(b">")]); out.push(a);
            let id = match r.below(3) { 0 => v(b"0"), 1 => v(b"0-0"), _ => recent_id(r, st, k) };
            out.push(vec![v(b"XGROUP"), v(b"SETID"), v(k), v(g), id]);
            let mut a = vec![v(b"XREADGROUP"), v(b"GROUP"), v(g), v(c2)]; cnt(r, &mut a); a.extend([v(b"STREAMS"), v(k), v(b">")]); out.push(a);
            out.push(vec![v(b"XPENDING"), v(k), v(g)]);
            out.push(vec![v(b"XPENDING"), v(k), v(g), v(b"-"), v(b"+"), v(b"100"), v(c1)]);
            out.push(vec![v(b"XPENDING"), v(k), v(g), v(b"-"), v(b"+"), v(b"100"), v(c2)]);
            let mut a = vec![v(b"XACK"), v(k), v(g)]; for _ in 0..(1 + r.below(3)) { a.push(recent_id(r, st, k)); } out.push(a);
            out.push(vec![v(b"XPENDING"), v(k), v(g)]);
            out.push(vec![v(b"XINFO"), v(b"GROUPS"), v(k)]);
            out.push(vec![v(b"XINFO"), v(b"CONSUMERS"), v(k), v(g)]);
        }
        _ => { // a later key fails
            let (k2, id2): (&[u8], &[u8]) = match r.below(5) { 0 => (STRKEY, b">"), 1 => (b"x2", b"abc"), 2 => (b"x2", b"5-"), 3 => (b"nokey", b">"), _ => (b"x2", b">") };
            let gg: &[u8] = if r.chance(1, 2) { g } else { b"gonly1" };
            if gg == b"gonly1" { out.push(vec![v(b"XGROUP"), v(b"CREATE"), v(b"x1"), v(gg), v(b"0")]); }
            let mut a = vec![v(b"XREADGROUP"), v(b"GROUP"), v(gg), v(c1)]; cnt(r, &mut a);
            a.extend([v(b"STREAMS"), v(b"x1"), v(k2), v(if r.chance(1, 4) { b"0" } else { b">" }), v(id2)]); out.push(a);
            out.push(vec![v(b"XPENDING"), v(b"x1"), v(gg)]);
            out.push(vec![v(b"XINFO"), v(b"GROUPS"), v(b"x1")]);
            out.push(vec![v(b"XREADGROUP"), v(b"GROUP"), v(gg), v(c1), v(b"STREAMS"), v(b"x1"), v(b">")]);
        }
    }
    out
}

pub fn gen(seed: u64, n: usize, _tier: &str) -> Vec<Case> {
    let mut r = Rng::new(seed ^ 0x16);
    let mut cases = vec![];
    for id in 0..n {
        let mut ops = vec![conn_op(1)];
        let mut st = GenSt { next_ms: 1, auto_share: *r.pick(&[0u64, 0, 0, 10, 50]), added: vec![] };
        // most histories start from a populated stream with a group
        if r.chance(4, 5) {
            for k in GKEYS { if r.chance(3, 4) {
                for _ in 0..(1 + r.below(6)) {
                    st.next_ms += 1;
                    let c = vec![v(b"XADD"), v(k), format!("{}-0", st.next_ms).into_bytes(), v(b"f"), v(*r.pick(&[&b"v"[..], b"w", b""]))];
                    st.added.push((k.to_vec(), c[2].clone()));
                    push_cmd(&mut r, &mut ops, &c);
                }
                for g in GROUPS { if r.chance(3, 4) { let c = vec![v(b"XGROUP"), v(b"CREATE"), v(k), v(g), v(*r.pick(&[&b"0"[..], b"0", b"0", b"$"]))]; push_cmd(&mut r, &mut ops, &c); } }
            } }
        }
        let big = r.chance(1, 4); let len = 6 + r.below(if big { 100 } else { 40 });
        let mut sleeps = 0;
        for _ in 0..len {
            if sleeps < 2 && r.chance(1, 60) { ops.push(sleep_op(450)); sleeps += 1; }
            if r.chance(1, 14) { for c in gen_scenario(&mut r, &mut st) { push_cmd(&mut r, &mut ops, &c); } continue; }
            let c = gen_group_cmd(&mut r, &mut st);
            push_cmd(&mut r, &mut ops, &c);
        }
        let mut keys: Vec<&[u8]> = GKEYS.to_vec(); keys.push(STRKEY);
        dump_ops(1, &keys, &mut ops);
        cases.push(Case { id: format!("g-{}", id), ops, outs: vec![] });
    }
    cases
}

pub fn run(c: &Case) -> Case { crate::c15::run(c) }

// ---------------------------------------------------------------- property oracle
// Independent of the Coq model: reference streams (ID sets) and reference groups (cursor
// semantics of Redis: start position, pending map id -> consumer), driven by the
// implementation's replies.  Violations that fall into a known class carry `class=`.
use std::collections::{BTreeMap, BTreeSet, HashMap};
type Id = (u64, u64);
fn pid(b: &[u8]) -> Option<Id> {
    let s = std::str::from_utf8(b).ok()?; let (a, c) = s.split_once('-')?;
    if a.is_empty() || c.is_empty() { return None; }
    Some((a.parse().ok()?, c.parse().ok()?))
}
fn bulks(req: &V) -> Option<Vec<Vec<u8>>> {
    match req { V::Array(l) => l.iter().map(|x| match x { V::Bulk(b) => Some(b.clone()), _ => None }).collect(), _ => None }
}
#[derive(Default, Clone)]
struct RefGroup {
    start: Id,                       // entries with id <= start must not be delivered by ">" (moved by SETID)
    cursor: Id,                      // last-delivered-id: start, then the last ID delivered through ">"
    delivered: BTreeSet<Id>,         // through ">" since the last SETID
    pending: BTreeMap<Id, Vec<u8>>,  // id -> owner
    consumers: BTreeSet<Vec<u8>>,
    noack: bool, uncertain: bool,
}
impl RefGroup {
    fn class(&self) -> &'static str { "" }
}
#[derive(Default, Clone)]
struct RefKey { ids: BTreeSet<Id>, groups: HashMap<Vec<u8>, RefGroup>, known: bool }

pub fn judge(c: &Case, outs: &[Vec<Tok>]) -> Vec<String> {
    let mut fails = vec![];
    let mut db: HashMap<Vec<u8>, RefKey> = HashMap::new();
    for (k, op) in c.ops.iter().enumerate() {
        if op.is_empty() || tok_bytes(&op[0]) != b"CMD" { continue; }
        let mut pos = 3;
        let req = match V::dec(op, &mut pos) { Some(r) => r, None => continue };
        let out = match outs.get(k) { Some(o) => o, None => continue };
        let mut p2 = 0;
        let rep = match V::dec(out, &mut p2) { Some(r) => r, None => continue };
        let a = match bulks(&req) { Some(a) if !a.is_empty() => a, _ => {
            // a non-bulk argument: the reference cannot follow what the command did
            // (an XREADGROUP that answers an error has delivered nothing, 3384736)
            if !matches!(rep, V::Error(_)) { for e in db.values_mut() { e.known = false; for g in e.groups.values_mut() { g.uncertain = true; } } }
            continue } };
        let name = a[0].to_ascii_uppercase();
        let up = |x: &Vec<u8>| x.to_ascii_uppercase();
        let mut fail = |what: String| fails.push(format!("FAIL case={} op={} {}", c.id, k, what));
        match &name[..] {
            b"XADD" if a.len() >= 5 => { if let V::Bulk(b) = &rep { if let Some(i) = pid(b) { let e = db.entry(a[1].clone()).or_insert_with(|| RefKey { known: true, ..Default::default() }); e.ids.insert(i); } } }
            b"XDEL" if a.len() >= 3 => { if let (V::Int(_), Some(e)) = (&rep, db.get_mut(&a[1])) { for x in &a[2..] { if let Some(i) = pid(x) { e.ids.remove(&i); } else { e.known = false; } } } }
            b"XTRIM" => { if let (V::Int(n), Some(e)) = (&rep, db.get_mut(&a[1])) { for _ in 0..*n { let f = e.ids.iter().next().cloned(); if let Some(f) = f { e.ids.remove(&f); } } } }
            b"DEL" | b"SET" => { for x in &a[1..] { db.remove(x); } }
            b"RENAME" if a.len() == 3 => { if let V::Simple(_) = &rep { match db.remove(&a[1]) { Some(s) => { db.insert(a[2].clone(), s); } None => { db.remove(&a[2]); } } } }
            b"XGROUP" if a.len() >= 4 => {
                let sub = up(&a[1]);
                match &sub[..] {
                    b"CREATE" if a.len() >= 5 => {
                        if let V::Simple(_) = &rep {
                            let e = db.entry(a[2].clone()).or_insert_with(|| RefKey { known: true, ..Default::default() });
                            let start = if a[4] == b"$" { e.ids.iter().next_back().cloned().unwrap_or((0, 0)) } else if a[4] == b"0" { (0, 0) } else { pid(&a[4]).unwrap_or((0, 0)) };
                            let mut g = RefGroup::default(); g.start = start; g.cursor = start; g.uncertain = !e.known;
                            e.groups.insert(a[3].clone(), g);
                        }
                    }
                    b"DESTROY" => { if let (V::Int(1), Some(e)) = (&rep, db.get_mut(&a[2])) { e.groups.remove(&a[3]); } }
                    b"SETID" if a.len() >= 5 => {
                        // the cursor moves to the given position: entries above it may (again) be delivered
                        let top = db.get(&a[2]).and_then(|e| e.ids.iter().next_back().cloned()).unwrap_or((0, 0));
                        if let (V::Simple(_), Some(g)) = (&rep, db.get_mut(&a[2]).and_then(|e| e.groups.get_mut(&a[3]))) {
                            if a[4] != b"$" && pid(&a[4]).is_none() { fail("XGROUP SETID accepted a text that is not an ID".to_string()); }
                            let ns = if a[4] == b"$" { top } else { pid(&a[4]).unwrap_or((0, 0)) };
                            g.start = ns; g.cursor = ns; g.delivered.retain(|i| *i <= ns);
                        }
                    }
                    b"CREATECONSUMER" if a.len() == 5 => { if let (V::Int(n), Some(g)) = (&rep, db.get_mut(&a[2]).and_then(|e| e.groups.get_mut(&a[3]))) {
                        let fresh = g.consumers.insert(a[4].clone());
                        if !g.uncertain && (*n == 1) != fresh { fail(format!("{}CREATECONSUMER answered {} for a {} consumer", g.class(), n, if fresh { "new" } else { "known" })); } } }
                    b"DELCONSUMER" if a.len() == 5 => { if let (V::Int(n), Some(g)) = (&rep, db.get_mut(&a[2]).and_then(|e| e.groups.get_mut(&a[3]))) {
                        let mine: Vec<Id> = g.pending.iter().filter(|(_, o)| **o == a[4]).map(|(i, _)| *i).collect();
                        if !g.uncertain && *n != mine.len() as i64 { fail(format!("{}DELCONSUMER answered {} but the consumer owned {} pending entries", g.class(), n, mine.len())); }
                        for i in mine { g.pending.remove(&i); }
                        g.consumers.remove(&a[4]); } }
                    _ => {}
                }
            }
            b"XREADGROUP" if a.len() >= 7 && up(&a[1]) == b"GROUP" => {
                let (gn, cn) = (a[2].clone(), a[3].clone());
                let sp = match a.iter().position(|x| up(x) == b"STREAMS") { Some(p) => p, None => continue };
                let noack = a[4..sp].iter().any(|x| up(x) == b"NOACK");
                // COUNT n: None = no limit; Some(None) = a count this oracle cannot read (no exact check)
                let count: Option<Option<usize>> = a[4..sp].iter().position(|x| up(x) == b"COUNT").map(|p| a[4..sp].get(p + 1).and_then(|t| std::str::from_utf8(t).ok()).and_then(|t| t.parse::<usize>().ok()));
                let rest = &a[sp + 1..]; if rest.is_empty() || rest.len() % 2 != 0 { continue; }
                let nk = rest.len() / 2;
                // an error: nothing was delivered from any key (failure atomicity, 3384736) - the reference does not move,
                // and the probes that follow (XPENDING, XINFO, the next ">") are judged against the unchanged reference
                if matches!(rep, V::Error(_)) { continue; }
                // the same key twice: the oracle loses track
                let dup = (0..nk).any(|i| (0..i).any(|j| rest[i] == rest[j]));
                if dup { for j in 0..nk { if let Some(g) = db.get_mut(&rest[j]).and_then(|e| e.groups.get_mut(&gn)) { g.uncertain = true; } } continue; }
                let streams: Vec<V> = match &rep { V::Array(l) => l.clone(), _ => vec![] };
                for j in 0..nk {
                    let key = rest[j].clone(); let idarg = rest[nk + j].clone();
                    let got: Vec<Id> = streams.iter().find_map(|st| match st { V::Array(p) if p.len() == 2 => match (&p[0], &p[1]) {
                        (V::Bulk(kb), V::Array(es)) if *kb == key => Some(es.iter().filter_map(|e| match e { V::Array(p) if p.len() == 2 => match &p[0] { V::Bulk(b) => pid(b), _ => None }, _ => None }).collect()), _ => None }, _ => None }).unwrap_or_default();
                    let (ids_now, known): (BTreeSet<Id>, bool) = match db.get(&key) { Some(e) => (e.ids.clone(), e.known), None => {
                        // a key that does not exist has no group: NOGROUP (d9160ac)
                        fail(format!("XREADGROUP on the missing key {:?} answered without an error", String::from_utf8_lossy(&key)));
                        continue } };
                    let g = match db.get_mut(&key).and_then(|e| e.groups.get_mut(&gn)) { Some(g) => g, None => continue };
                    // COUNT 0 = no limit (cc6cf30)
                    let limit = |v: Vec<Id>| -> Vec<Id> { match count { Some(Some(n)) if n > 0 => v.into_iter().take(n).collect(), _ => v } };
                    let exact = known && !g.uncertain && count != Some(None);
                    // (7d40622: the greatest ID is an ordinary explicit ID, its history is empty)
                    if idarg == b">" {
                        let want = limit(ids_now.iter().filter(|i| **i > g.cursor).cloned().collect());
                        if exact && got != want {
                            fail(format!("> returned {:?}; the entries above the cursor {:?} are {:?}", got, g.cursor, want));
                        }
                        let mut prev: Option<Id> = None;
                        for i in &got {
                            if prev.map_or(false, |p| *i <= p) { fail("> delivered IDs out of order".to_string()); }
                            prev = Some(*i);
                            if g.delivered.contains(i) { fail(format!("{}entry {:?} delivered a second time through >", if g.noack { "class=noack-no-advance " } else { "" }, i)); }
                            else if *i <= g.start && !g.uncertain { fail(format!("class=group-start-ignored entry {:?} at or before the group's start position {:?} delivered", i, g.start)); }
                            g.delivered.insert(*i);
                            if !noack { g.pending.insert(*i, cn.clone()); }     // whoever owned it before (re-delivery after SETID)
                            if *i > g.cursor { g.cursor = *i; }
                        }
                        if !got.is_empty() { if noack { g.noack = true; } else { g.consumers.insert(cn.clone()); } }
                    } else {
                        // history read: exactly the reader's own pending entries above the ID that are still in the
                        // stream, in ID order, COUNT honoured; nothing becomes pending, the cursor does not move
                        let after = if idarg == b"0" || idarg == b"0-0" { Some((0, 0)) } else { pid(&idarg) };
                        let after = match after { Some(x) => x, None => { fail(format!("XREADGROUP accepted the ID text {:?}", String::from_utf8_lossy(&idarg))); g.uncertain = true; continue } };
                        let want = limit(g.pending.iter().filter(|(i, o)| **i > after && **o == cn).map(|(i, _)| *i).collect());
                        let want: Vec<Id> = want.into_iter().filter(|i| ids_now.contains(i)).collect();
                        if exact && got != want {
                            fail(format!("read with ID {} by {:?} returned {:?}; its pending entries above the ID are {:?}", String::from_utf8_lossy(&idarg), String::from_utf8_lossy(&cn), got, want));
                        }
                        g.consumers.insert(cn.clone());     // the reader is registered as a consumer
                    }
                }
            }
            b"XACK" if a.len() >= 4 => {
                if let (V::Int(n), Some(g)) = (&rep, db.get_mut(&a[1]).and_then(|e| e.groups.get_mut(&a[2]))) {
                    let ids: Option<Vec<Id>> = a[3..].iter().map(|x| pid(x)).collect();
                    if let Some(ids) = ids {
                        let mut cnt = 0; for i in ids { if g.pending.remove(&i).is_some() { cnt += 1; } }
                        if !g.uncertain && cnt != *n { fail(format!("{}XACK answered {} but {} listed IDs were pending", g.class(), n, cnt)); }
                    } else { fail("XACK accepted a text that is not an ID".to_string()); g.uncertain = true; }
                }
            }
            b"XCLAIM" if a.len() >= 6 => {
                if let (V::Array(l), Some(g)) = (&rep, db.get_mut(&a[1]).and_then(|e| e.groups.get_mut(&a[2]))) {
                    g.consumers.insert(a[3].clone());
                    let force = a[5..].iter().any(|x| up(x) == b"FORCE");
                    let justid = a[5..].iter().any(|x| up(x) == b"JUSTID");
                    let never = std::str::from_utf8(&a[4]).ok().and_then(|t| t.parse::<u64>().ok()).map_or(false, |m| m >= 1000000);
                    if a[4] == b"0" || force {
                        for x in &a[5..] { if let Some(i) = pid(x) { if g.pending.contains_key(&i) { g.pending.insert(i, a[3].clone()); } } }
                        if justid { for e in l { if let V::Bulk(b) = e { if let Some(i) = pid(b) { if !g.uncertain && g.pending.get(&i) != Some(&a[3]) { fail(format!("{}XCLAIM returned {:?}, which was not pending", g.class(), i)); } } } } }
                    } else if never {
                        if !l.is_empty() { fail(format!("{}XCLAIM with an idle threshold of {} ms claimed {} entries", g.class(), String::from_utf8_lossy(&a[4]), l.len())); }
                    } else { g.uncertain = true; }
                }
            }
            b"XPENDING" if a.len() == 3 => {
                if let (V::Array(l), Some(g)) = (&rep, db.get(&a[1]).and_then(|e| e.groups.get(&a[2]))) {
                    if g.uncertain || l.len() != 4 { continue; }
                    let total = match l[0] { V::Int(n) => n, _ => continue };
                    let mut want: BTreeMap<Vec<u8>, i64> = BTreeMap::new();
                    for o in g.pending.values() { *want.entry(o.clone()).or_insert(0) += 1; }
                    let got: BTreeMap<Vec<u8>, i64> = match &l[3] { V::Array(cs) => cs.iter().filter_map(|x| match x { V::Array(p) if p.len() == 2 => match (&p[0], &p[1]) { (V::Bulk(n), V::Int(c)) => Some((n.clone(), *c)), _ => None }, _ => None }).collect(), _ => continue };
                    let lo = g.pending.keys().next().cloned(); let hi = g.pending.keys().next_back().cloned();
                    let b2i = |v: &V| match v { V::Bulk(b) => pid(b), _ => None };
                    if total != g.pending.len() as i64 || got != want || b2i(&l[1]) != lo || b2i(&l[2]) != hi {
                        fail(format!("{}XPENDING reports total {} bounds {:?}..{:?} consumers {:?}; the pending set has {} entries, bounds {:?}..{:?}, consumers {:?}", g.class(), total, b2i(&l[1]), b2i(&l[2]),
                            got.iter().map(|(k, v)| (String::from_utf8_lossy(k).to_string(), *v)).collect::<Vec<_>>(), g.pending.len(), lo, hi,
                            want.iter().map(|(k, v)| (String::from_utf8_lossy(k).to_string(), *v)).collect::<Vec<_>>()));
                    }
                }
            }
            b"XPENDING" if a.len() == 6 || a.len() == 7 => {
                // extended form: the pending entries with start <= id <= end (of that consumer), first COUNT, in ID order
                if let (V::Array(rows), Some(g)) = (&rep, db.get(&a[1]).and_then(|e| e.groups.get(&a[2]))) {
                    if g.uncertain { continue; }
                    let st = if a[3] == b"-" { Some((0, 0)) } else { pid(&a[3]) };
                    let en = if a[4] == b"+" { Some((u64::MAX, u64::MAX)) } else { pid(&a[4]) };
                    let cnt: usize = match std::str::from_utf8(&a[5]).ok().and_then(|t| t.parse().ok()) { Some(n) => n, None => continue };
                    let (st, en) = match (st, en) { (Some(x), Some(y)) => (x, y), _ => continue };   // the handler reads a bad bound as open
                    let want: Vec<(Id, Vec<u8>)> = g.pending.iter().filter(|(i, o)| st <= **i && **i <= en && (a.len() == 6 || **o == a[6])).map(|(i, o)| (*i, o.clone())).take(cnt).collect();
                    let got: Vec<(Id, Vec<u8>)> = rows.iter().filter_map(|r| match r { V::Array(p) if p.len() == 4 => match (&p[0], &p[1]) { (V::Bulk(i), V::Bulk(o)) => pid(i).map(|i| (i, o.clone())), _ => None }, _ => None }).collect();
                    if got != want {
                        fail(format!("XPENDING {:?}..{:?} count {} listed {:?}; the pending entries in the range are {:?}", st, en, cnt, got, want));
                    }
                }
            }
            b"XINFO" if a.len() == 3 && up(&a[1]) == b"GROUPS" => {
                if let (V::Array(rows), Some(e)) = (&rep, db.get(&a[2])) {
                    for row in rows { if let V::Array(r) = row { if r.len() == 8 { if let (V::Bulk(gn), V::Int(nc), V::Int(np)) = (&r[1], &r[3], &r[5]) {
                        if let Some(g) = e.groups.get(gn) { if !g.uncertain {
                            if *np != g.pending.len() as i64 { fail(format!("{}XINFO GROUPS pending {} but the pending set has {} entries", g.class(), np, g.pending.len())); }
                            if *nc != g.consumers.len() as i64 { fail(format!("{}XINFO GROUPS consumers {} but {} consumers exist", g.class(), nc, g.consumers.len())); }
                        } }
                    } } } }
                }
            }
            _ => {}
        }
    }
    fails
}
