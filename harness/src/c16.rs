//! C16: consumer groups (XGROUP XREADGROUP XACK XCLAIM XPENDING XINFO), histories over
//! TCP against the model; property oracle on the implementation's replies.
use crate::c15::{dump_ops, gen_xadd, push_cmd, GenSt, GROUPS, SMALL_IDS, ODD_IDS, COUNTS, STRKEY};
use crate::resp::V;
use crate::rng::Rng;
use crate::srv::*;
use crate::tok::*;

pub const GKEYS: &[&[u8]] = &[b"x1", b"x2"];
pub const CONSUMERS: &[&[u8]] = &[b"c1", b"c2", b"c3"];
/// 0 / 200 / never: separated from the harness's clock drift (<= 80 ms) by the 450 ms sleeps
pub const MIN_IDLE: &[&[u8]] = &[b"0", b"0", b"0", b"200", b"200", b"1000000", b"18446744073709551615", b"abc", b"-1"];

fn pick<'a>(r: &mut Rng, p: &'a [&'a [u8]]) -> &'a [u8] { *r.pick(p) }
fn v(x: &[u8]) -> Vec<u8> { x.to_vec() }
fn gkey<'a>(r: &mut Rng) -> &'a [u8] { if r.chance(1, 30) { STRKEY } else if r.chance(1, 30) { b"nokey" } else if r.chance(2, 3) { b"x1" } else { b"x2" } }
fn grp<'a>(r: &mut Rng) -> &'a [u8] { if r.chance(1, 25) { b"nogroup" } else if r.chance(2, 3) { b"g1" } else { b"g2" } }
fn cons<'a>(r: &mut Rng) -> &'a [u8] { if r.chance(1, 20) { b"c9" } else { pick(r, CONSUMERS) } }
/// IDs that are probably in the stream / pending: the ones this history added to the key
fn recent_id(r: &mut Rng, st: &GenSt, k: &[u8]) -> Vec<u8> {
    if r.chance(1, 12) { return v(pick(r, SMALL_IDS)); }
    if r.chance(1, 30) { return v(pick(r, ODD_IDS)); }
    let mine: Vec<&Vec<u8>> = st.added.iter().filter(|(kk, _)| kk == k).map(|(_, i)| i).collect();
    if mine.is_empty() { return format!("{}-0", 1 + r.below(st.next_ms + 1)).into_bytes(); }
    // favour the older ones: they are the likelier to have been delivered already
    let idx = if r.chance(1, 2) { r.below(mine.len() as u64 / 2 + 1) } else { r.below(mine.len() as u64) } as usize;
    mine[idx].clone()
}

pub fn gen_group_cmd(r: &mut Rng, st: &mut GenSt) -> Vec<Vec<u8>> {
    let k = gkey(r); let g = grp(r); let c = cons(r);
    match r.below(60) {
        44..=51 => gen_xadd(r, st, k),
        52..=57 => { // XREADGROUP >, plain
            let mut cmd = vec![v(b"XREADGROUP"), v(b"GROUP"), v(g), v(c)];
            if r.chance(2, 3) { cmd.push(v(b"COUNT")); cmd.push(v(*r.pick(&[&b"1"[..], b"2", b"3"]))); }
            cmd.push(v(b"STREAMS")); cmd.push(v(k)); cmd.push(v(b">")); cmd
        }
        58 => { let mut cmd = vec![v(b"XCLAIM"), v(k), v(g), v(c), v(b"0")]; for _ in 0..(1 + r.below(3)) { cmd.push(recent_id(r, st, k)); } cmd }
        59 => { let mut cmd = vec![v(b"XACK"), v(k), v(g)]; for _ in 0..(1 + r.below(2)) { cmd.push(recent_id(r, st, k)); } cmd }
        0..=2 => { // XGROUP CREATE
            let id = *r.pick(&[&b"0"[..], b"0", b"0", b"$", b"$", b"0-0", b"3-0", b"abc", b"5"]);
            let mut cmd = vec![v(b"XGROUP"), v(if r.chance(1, 5) { b"create" } else { b"CREATE" }), v(k), v(g), v(id)];
            if r.chance(1, 3) { cmd.push(v(if r.chance(1, 6) { b"MKSTREAMS" } else { b"MKSTREAM" })); }
            if r.chance(1, 25) { cmd.truncate(4); }
            cmd
        }
        3 => if r.chance(1, 2) { vec![v(b"XGROUP"), v(b"DESTROY"), v(k), v(g)] } else { vec![v(b"XINFO"), v(b"GROUPS"), v(k)] },
        4 => vec![v(b"XPENDING"), v(k), v(g)],
        5 | 6 => vec![v(b"XGROUP"), v(b"CREATECONSUMER"), v(k), v(g), v(c)],
        7 | 8 => vec![v(b"XGROUP"), v(b"DELCONSUMER"), v(k), v(g), v(c)],
        9 => { // SETID
            let id = if r.chance(1, 2) { v(*r.pick(&[&b"$"[..], b"0-0", b"0", b"abc", b"100-0", b"9999999999999-0"])) } else { recent_id(r, st, k) };
            vec![v(b"XGROUP"), v(b"SETID"), v(k), v(g), id]
        }
        10..=19 => { // XREADGROUP
            let mut cmd = vec![v(b"XREADGROUP"), v(if r.chance(1, 30) { b"GROUPS" } else { b"GROUP" }), v(g), v(c)];
            if r.chance(1, 2) { cmd.push(v(b"COUNT")); cmd.push(v(if r.chance(1, 6) { pick(r, COUNTS) } else { *r.pick(&[&b"1"[..], b"2", b"3"]) })); }
            if r.chance(1, 10) { cmd.push(v(b"BLOCK")); cmd.push(v(*r.pick(&[&b"0"[..], b"50", b"x"]))); }
            if r.chance(1, 8) { cmd.push(v(if r.chance(1, 4) { b"noack" } else { b"NOACK" })); }
            if r.chance(1, 40) { cmd.push(v(b"BOGUS")); }
            cmd.push(v(b"STREAMS"));
            let n = if r.chance(1, 5) { 2 } else { 1 };
            let keys: Vec<&[u8]> = (0..n).map(|j| if j == 0 { k } else { gkey(r) }).collect();
            for kk in &keys { cmd.push(v(kk)); }
            for _ in 0..n {
                cmd.push(match r.below(12) { 0 => v(b"0"), 1 => recent_id(r, st, k), 2 => v(b"0-0"), 3 => v(*r.pick(&[&b"$"[..], b"abc", b"18446744073709551615-18446744073709551615"])), _ => v(b">") });
            }
            if r.chance(1, 30) { cmd.pop(); }
            cmd
        }
        20..=24 => { // XACK
            let mut cmd = vec![v(b"XACK"), v(k), v(g)];
            for _ in 0..(1 + r.below(3)) { cmd.push(recent_id(r, st, k)); }
            if r.chance(1, 4) { let d = cmd[3].clone(); cmd.push(d); }
            if r.chance(1, 30) { cmd.truncate(3); }
            cmd
        }
        25..=29 => { // XCLAIM
            let mut cmd = vec![v(b"XCLAIM"), v(k), v(g), v(c), v(pick(r, MIN_IDLE))];
            for _ in 0..(1 + r.below(3)) { cmd.push(recent_id(r, st, k)); }
            if r.chance(1, 6) { let d = cmd[5].clone(); cmd.push(d); }
            if r.chance(1, 4) { cmd.push(v(b"FORCE")); }
            if r.chance(1, 4) { cmd.push(v(if r.chance(1, 4) { b"justid" } else { b"JUSTID" })); }
            if r.chance(1, 10) { cmd.push(v(*r.pick(&[&b"IDLE"[..], b"TIME", b"RETRYCOUNT"]))); if r.chance(3, 4) { cmd.push(v(b"5")); } }
            if r.chance(1, 30) { cmd.truncate(5); }
            cmd
        }
        30..=32 => vec![v(b"XPENDING"), v(k), v(g)],
        33..=35 => { // extended XPENDING; start <= end unless a consumer is named (inverted ranges
                     // without a consumer panic: finding xpending-inverted-range)
            let (a, b) = (1 + r.below(st.next_ms + 2), 1 + r.below(st.next_ms + 2));
            let (lo, hi) = (a.min(b), a.max(b));
            let start = if r.chance(1, 2) { v(b"-") } else { format!("{}-0", lo).into_bytes() };
            let end = if r.chance(1, 2) { v(b"+") } else { format!("{}-5", hi).into_bytes() };
            let mut cmd = vec![v(b"XPENDING"), v(k), v(g), start, end, v(*r.pick(&[&b"10"[..], b"1", b"2", b"0", b"abc", b"18446744073709551615"]))];
            if r.chance(1, 3) { cmd.push(v(c)); if r.chance(1, 3) { cmd[3] = v(b"9-0"); cmd[4] = v(b"2-0"); } }
            if r.chance(1, 20) { cmd[3] = v(b"junk"); }
            if r.chance(1, 30) { cmd.truncate(5); }
            cmd
        }
        36 => vec![v(b"XINFO"), v(b"GROUPS"), v(k)],
        37 => vec![v(b"XINFO"), v(b"CONSUMERS"), v(k), v(g)],
        38 => match r.below(5) { 0 => vec![v(b"XINFO"), v(b"HELP")], 1 => vec![v(b"XGROUP"), v(b"HELP")], 2 => vec![v(b"XINFO"), v(b"BOGUS"), v(k)],
                                 3 => vec![v(b"XGROUP"), v(b"BOGUS"), v(k)], _ => vec![v(b"XINFO"), v(b"stream"), v(k), v(b"FULL")] },
        39 => { let mut cmd = vec![v(b"XDEL"), v(k)]; cmd.push(recent_id(r, st, k)); cmd }
        40 => vec![v(b"XTRIM"), v(k), v(b"MAXLEN"), v(*r.pick(&[&b"0"[..], b"2", b"5"]))],
        41 => match r.below(4) { 0 => vec![v(b"DEL"), v(k)], 1 => vec![v(b"RENAME"), v(k), v(gkey(r))], 2 => vec![v(b"SET"), v(STRKEY), v(b"s")], _ => vec![v(b"XLEN"), v(k)] },
        _ => gen_xadd(r, st, k),
    }
}

pub fn gen(seed: u64, n: usize, _tier: &str) -> Vec<Case> {
    let mut r = Rng::new(seed ^ 0x16);
    let mut cases = vec![];
    for id in 0..n {
        let mut ops = vec![conn_op(1)];
        let mut st = GenSt { next_ms: 1, auto_share: *r.pick(&[0u64, 0, 0, 10, 50]), added: vec![] };
        // most histories start from a populated stream with a group
        if r.chance(4, 5) {
            for k in GKEYS { if r.chance(3, 4) {
                for _ in 0..(1 + r.below(6)) {
                    st.next_ms += 1;
                    let c = vec![v(b"XADD"), v(k), format!("{}-0", st.next_ms).into_bytes(), v(b"f"), v(*r.pick(&[&b"v"[..], b"w", b""]))];
                    st.added.push((k.to_vec(), c[2].clone()));
                    push_cmd(&mut r, &mut ops, &c);
                }
                for g in GROUPS { if r.chance(3, 4) { let c = vec![v(b"XGROUP"), v(b"CREATE"), v(k), v(g), v(*r.pick(&[&b"0"[..], b"0", b"0", b"$"]))]; push_cmd(&mut r, &mut ops, &c); } }
            } }
        }
        let big = r.chance(1, 4); let len = 6 + r.below(if big { 100 } else { 40 });
        let mut sleeps = 0;
        for _ in 0..len {
            if sleeps < 2 && r.chance(1, 60) { ops.push(sleep_op(450)); sleeps += 1; }
            let c = gen_group_cmd(&mut r, &mut st);
            push_cmd(&mut r, &mut ops, &c);
        }
        let mut keys: Vec<&[u8]> = GKEYS.to_vec(); keys.push(STRKEY);
        dump_ops(1, &keys, &mut ops);
        cases.push(Case { id: format!("g-{}", id), ops, outs: vec![] });
    }
    cases
}

pub fn run(c: &Case) -> Case { crate::c15::run(c) }

pub fn judge(_c: &Case, _outs: &[Vec<Tok>]) -> Vec<String> { let _ = V::Null; vec![] }
