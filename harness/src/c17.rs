//! C17: with a password set, unauthenticated connections can neither read nor write.
use crate::resp::V;
use crate::rng::Rng;
use crate::srv::*;
use crate::tok::*;

const PW: &[u8] = b"s3cret-Pw";

fn args_for(r: &mut Rng, name: &str) -> Vec<Vec<u8>> {
    let mut a = vec![name.as_bytes().to_vec()];
    let n = r.below(4);
    let pool: &[&[u8]] = &[b"sentinel", b"k1", b"0", b"1", b"?", b"-1", b"x", b"ch", b"*"];
    for _ in 0..n { a.push(r.pick(pool).to_vec()); }
    match name {
        "PSYNC" => vec![b"PSYNC".to_vec(), b"?".to_vec(), b"-1".to_vec()],
        "REPLCONF" => vec![b"REPLCONF".to_vec(), b"listening-port".to_vec(), b"1234".to_vec()],
        "EVAL" => vec![b"EVAL".to_vec(), b"return redis.call('GET','sentinel')".to_vec(), b"0".to_vec()],
        "SUBSCRIBE" | "PSUBSCRIBE" => vec![name.as_bytes().to_vec(), b"ch".to_vec()],
        "SHUTDOWN" => vec![b"SHUTDOWN".to_vec(), b"NOSAVE".to_vec()],
        _ => a,
    }
}
fn vary_case(r: &mut Rng, n: &str) -> Vec<u8> {
    match r.below(4) { 0 => n.to_lowercase().into_bytes(), 1 => n.bytes().enumerate().map(|(i, c)| if i % 2 == 0 { c.to_ascii_lowercase() } else { c }).collect(), _ => n.as_bytes().to_vec() }
}
fn refs(v: &[Vec<u8>]) -> Vec<&[u8]> { v.iter().map(|x| &x[..]).collect() }

fn control_check(ops: &mut Vec<Vec<Tok>>, conn: i64) {
    // the authenticated control connection sees the sentinel data untouched
    ops.push(cmd_op(conn, &[b"GET", b"sentinel"]));
    ops.push(cmd_op(conn, &[b"DBSIZE"]));
    ops.push(cmd_op(conn, &[b"KEYS", b"*"]));
}

pub fn gen(seed: u64, n: usize, _tier: &str) -> Vec<Case> {
    let mut r = Rng::new(seed);
    let names = dispatch_names();
    let mut cases = vec![];
    let mut id = 0;
    // (a) every dispatched name, alone, before AUTH; in chunks so a dying server is localised
    for chunk in names.chunks(8) {
        let mut ops = vec![server_op(PW), conn_op(9), cmd_op(9, &[b"AUTH", PW]), cmd_op(9, &[b"SET", b"sentinel", b"intact"])];
        for name in chunk {
            if name == "QUIT" { continue; }
            ops.push(conn_op(1));
            let mut a = args_for(&mut r, name);
            a[0] = vary_case(&mut r, name);
            ops.push(cmd_op(1, &refs(&a)));
            // a second command on the same unauthenticated connection still meets the gate
            ops.push(cmd_op(1, &[b"GET", b"sentinel"]));
            ops.push(cmd_op(1, &[b"PING"]));
            ops.push(close_op(1));
            control_check(&mut ops, 9);
        }
        cases.push(Case { id: format!("names-{}", id), ops, outs: vec![] }); id += 1;
    }
    // (b) wrong passwords, then the right one; authentication is per connection
    let mut wrong: Vec<Vec<u8>> = vec![b"".to_vec(), PW[..PW.len() - 1].to_vec(), [PW, b"x"].concat(), PW.to_ascii_lowercase(), PW.to_ascii_uppercase(),
        b"\xff\xfe".to_vec(), [PW, b"\x00"].concat(), b" s3cret-Pw".to_vec(), b"s3cret-Pw ".to_vec(), b"S3cret-Pw".to_vec()];
    for k in 1..PW.len() { wrong.push(PW[..k].to_vec()); }
    // same length, same multiset of bytes / same checksums: transpositions, reversal, rotations,
    // paired bit flips, single-byte changes - whatever a clever-but-wrong comparison might accept
    for k in 0..PW.len() - 1 { let mut w = PW.to_vec(); w.swap(k, k + 1); if w != PW { wrong.push(w); } }
    { let mut w = PW.to_vec(); w.reverse(); wrong.push(w); }
    for k in 1..PW.len() { let mut w = PW.to_vec(); w.rotate_left(k); if w != PW { wrong.push(w); } }
    for k in 0..PW.len() - 1 { let mut w = PW.to_vec(); w[k] ^= 1; w[k + 1] ^= 1; wrong.push(w); }
    for k in 0..PW.len() { let mut w = PW.to_vec(); w[k] = w[k].wrapping_add(1); wrong.push(w); }
    { let mut w = PW.to_vec(); let n = w.len(); w[0] = w[0].wrapping_add(1); w[n - 1] = w[n - 1].wrapping_sub(1); wrong.push(w); }
    for _ in 0..20 { let mut w = PW.to_vec(); let a = r.below(w.len() as u64) as usize; let b2 = r.below(w.len() as u64) as usize; w.swap(a, b2); if w != PW { wrong.push(w); } }
    // (c) every wrong password once, each on a fresh connection: refused, and the connection stays gated
    for chunk in wrong.chunks(12) {
        let mut ops = vec![server_op(PW), conn_op(9), cmd_op(9, &[b"AUTH", PW]), cmd_op(9, &[b"SET", b"sentinel", b"intact"])];
        for w in chunk {
            ops.push(conn_op(1));
            ops.push(cmd_op(1, &[b"AUTH", w]));
            ops.push(cmd_op(1, &[b"GET", b"sentinel"]));
            ops.push(cmd_op(1, &[b"SET", b"sentinel", b"overwritten"]));
            ops.push(close_op(1));
        }
        ops.push(cmd_op(9, &[b"GET", b"sentinel"]));
        cases.push(Case { id: format!("wrongpw-{}", id), ops, outs: vec![] }); id += 1;
    }
    for _ in 0..n {
        let mut ops = vec![server_op(PW), conn_op(9), cmd_op(9, &[b"AUTH", PW]), cmd_op(9, &[b"SET", b"sentinel", b"intact"]), conn_op(1), conn_op(2)];
        let mut authed = [false; 3];
        for _ in 0..(2 + r.below(10)) {
            let c = 1 + r.below(2) as i64;
            match r.below(12) {
                0 | 1 | 10 | 11 => { let w = r.pick(&wrong).clone(); ops.push(cmd_op(c, &[b"AUTH", &w])); }
                2 => { ops.push(cmd_op(c, &[b"AUTH", PW])); authed[c as usize] = true; }
                3 => ops.push(cmd_op(c, &[b"AUTH"])),
                4 => ops.push(cmd_op(c, &[b"auth", PW, b"extra"])),
                5 => ops.push(cmd_frame_op(c, &V::Array(vec![V::Bulk(b"AUTH".to_vec()), V::Int(5)]))),
                6 => ops.push(cmd_op(c, &[b"SET", b"sentinel", b"overwritten"])),
                7 => ops.push(cmd_op(c, &[b"GET", b"sentinel"])),
                8 => { ops.push(cmd_op(c, &[b"MULTI"])); ops.push(cmd_op(c, &[b"DEL", b"sentinel"])); ops.push(cmd_op(c, &[b"EXEC"])); }
                _ => { let nm = r.pick(&names).clone(); let a = args_for(&mut r, &nm); if !authed[c as usize] && nm != "QUIT" && nm != "SHUTDOWN" && nm != "SYNC" && nm != "PSYNC" && nm != "MONITOR" && !nm.contains("SUBSCRIBE") && nm != "BLPOP" && nm != "BRPOP" { ops.push(cmd_op(c, &refs(&a))); } }
            }
        }
        ops.push(cmd_op(9, &[b"GET", b"sentinel"]));
        cases.push(Case { id: format!("auth-{}", id), ops, outs: vec![] }); id += 1;
    }
    cases
}

pub fn run(c: &Case) -> Case { run_case(c, &SrvOpts::default()) }
