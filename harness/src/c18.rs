//! C18: numbered databases are isolated (direct commands, MULTI/EXEC, several connections).
use crate::rng::Rng;
use crate::srv::*;
use crate::tok::*;
use crate::c01;

const DBS: &[&[u8]] = &[b"0", b"1", b"7", b"15", b"16", b"-1", b"abc", b"99999999999999999999", b"2"];

fn push_cmd(ops: &mut Vec<Vec<Tok>>, c: i64, v: &[Vec<u8>]) { let refs: Vec<&[u8]> = v.iter().map(|x| &x[..]).collect(); ops.push(cmd_op(c, &refs)); }

pub fn dump_dbs(ops: &mut Vec<Vec<Tok>>, c: i64) {
    for d in [&b"0"[..], b"1", b"2", b"7", b"15"] {
        ops.push(cmd_op(c, &[b"SELECT", d]));
        ops.push(cmd_op(c, &[b"KEYS", b"*"]));
        for k in c01::KEYS { ops.push(cmd_op(c, &[b"GET", k])); ops.push(cmd_op(c, &[b"PTTL", k])); }
    }
}

pub fn gen(seed: u64, n: usize, _tier: &str) -> Vec<Case> {
    let mut r = Rng::new(seed);
    let mut cases = vec![];
    for id in 0..n {
        let nconn = 1 + r.below(3) as i64;
        let mut ops = vec![];
        for c in 1..=nconn { ops.push(conn_op(c)); }
        let mut intx = vec![false; 4];
        for _ in 0..(5 + r.below(40)) {
            let c = 1 + r.below(nconn as u64) as i64;
            match r.below(12) {
                0 | 1 => ops.push(cmd_op(c, &[b"SELECT", *r.pick(DBS)])),
                2 => if !intx[c as usize] { ops.push(cmd_op(c, &[b"MULTI"])); intx[c as usize] = true; } else { ops.push(cmd_op(c, &[b"EXEC"])); intx[c as usize] = false; },
                3 => if intx[c as usize] { ops.push(cmd_op(c, &[if r.chance(1, 3) { b"DISCARD" } else { b"EXEC" }])); intx[c as usize] = false; } else { ops.push(cmd_op(c, &[b"FLUSHDB"])); },
                4 => if r.chance(1, 4) { ops.push(cmd_op(c, &[b"FLUSHALL"])) } else { ops.push(cmd_op(c, &[b"DBSIZE"])) },
                5 | 6 if !intx[c as usize] => {
                    // a pipelined batch in ONE write: SELECT in the middle of data commands
                    let mut data = vec![];
                    for _ in 0..(2 + r.below(5)) {
                        let k = *r.pick(c01::KEYS);
                        let v: Vec<&[u8]> = match r.below(8) {
                            0 | 1 => vec![b"SELECT", *r.pick(DBS)],
                            2 => vec![b"SET", k, b"piped"],
                            3 => vec![b"GET", k],
                            4 => vec![b"INCR", k],
                            5 => vec![b"APPEND", k, b"+"],
                            6 => vec![b"DBSIZE"],
                            _ => if r.chance(1, 3) { vec![b"FLUSHDB"] } else { vec![b"DEL", k] },
                        };
                        crate::resp::V::cmd(&v).wire(&mut data);
                    }
                    ops.push(raw_op(c, &[data]));
                }
                _ => { let v = c01::gen_cmd(&mut r); if v[0] != b"RANDOMKEY" || !intx[c as usize] { push_cmd(&mut ops, c, &v); } }
            }
        }
        for c in 1..=nconn { if intx[c as usize] { ops.push(cmd_op(c, &[b"EXEC"])); } }
        ops.push(conn_op(8));
        dump_dbs(&mut ops, 8);
        cases.push(Case { id: format!("db-{}", id), ops, outs: vec![] });
    }
    cases
}
pub fn run(c: &Case) -> Case { run_case(c, &SrvOpts::default()) }
