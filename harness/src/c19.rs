//! C19: SCAN / HSCAN / SSCAN / ZSCAN.  Two kinds of cases:
//!  * "e-", "x-", "b-": in-process calls of StorageEngine::scan/hscan/sscan/zscan on key sets built
//!    through the engine API (all value types), with additions / deletions between calls of an
//!    iteration ("x-" cases use short TTLs and real sleeps);
//!  * "t-": command level over TCP (option parsing, cursor parsing, replies) on string keys, and
//!    HSCAN/SSCAN/ZSCAN on missing / wrong-type keys.
//! A cursor of -1 (in-process) or the bulk "$CUR" (TCP) stands for "the cursor returned by the
//! previous scan call of this case"; the runner substitutes it, so the recorded op is concrete.
use crate::resp::V;
use crate::rng::Rng;
use crate::srv::*;
use crate::tok::*;
use ferrous::storage::StorageEngine;
use std::collections::{BTreeMap, BTreeSet};
use std::time::Duration;

pub const PATTERNS: &[&[u8]] = &[b"*", b"k*", b"k0?", b"*1", b"[ab]*", b"k[0-1]*", b"[^k]*", b"a", b"zz*", b"", b"k\\0*", b"*:*", b"k[", b"**", b"?", b"k*5", b"[a-c]",
    // not UTF-8 (the pool holds the key \x00\xffb): bytes are matched, not lossy text (17322e9)
    b"\x00\xfe*", b"\x00\xff*", b"\x00?b", b"*\xff*", b"\x00[\xfe-\xff]b", b"\x00[^\xff]b"];
pub const TYPES: &[&[u8]] = &[b"string", b"set", b"hash", b"zset", b"list", b"STRING", b"bogus", b"stream", b""];
pub const COUNTS: &[i64] = &[1, 2, 3, 4, 5, 7, 10, 0, 100, 1000, 1001, 20];
pub const SCORES: &[f64] = &[0.0, 1.0, -1.0, 2.5, 1e3, -0.0, 3.0, 1e100, f64::INFINITY, f64::NEG_INFINITY, 0.1, 9007199254740991.0, 4503599627370496.5, 123456789.0];

fn key_pool() -> Vec<Vec<u8>> {
    let mut v: Vec<Vec<u8>> = (0..24).map(|k| format!("k{:02}", k).into_bytes()).collect();
    for s in [&b"a"[..], b"b", b"c", b"d", b"", b"key:1", b"\x00\xffb", b"A", b"k", b"zz9"] { v.push(s.to_vec()); }
    v
}

// ---------------------------------------------------------------- in-process runner
struct Eng { e: std::sync::Arc<StorageEngine>, logical: i128, last: i128, tally: BTreeMap<String, u64> }

fn names_of(op: &[Tok], from: usize) -> Vec<Vec<u8>> { op[from..].iter().filter_map(|t| match t { Tok::B(v) => Some(v.clone()), _ => None }).collect() }
fn cnt<T, E>(r: Result<T, E>, f: impl Fn(T) -> i64) -> Vec<Tok> { match r { Ok(x) => vec![i(f(x))], Err(_) => vec![b("WRONGTYPE")] } }
fn opt<'a>(has: &Tok, v: &'a Tok) -> Option<&'a [u8]> { if tok_int(has) != 0 { Some(tok_bytes(v)) } else { None } }

fn eng_op(st: &mut Eng, op: &[Tok]) -> (Vec<Tok>, Vec<Tok>) {
    let name = tok_bytes(&op[0]).to_vec();
    let mut o = op.to_vec();
    if name == b"SLEEP" {
        // always the full duration in real time: whatever the model considers expired (logical time)
        // has then expired in the implementation too, however slowly the earlier ops ran
        st.logical += tok_int(&op[1]);
        std::thread::sleep(Duration::from_millis(tok_int(&op[1]) as u64 + 8));
        return (o, vec![]);
    }
    o[1] = Tok::I(st.logical);
    let e = &st.e;
    let cur = |st_last: i128, t: &Tok| -> u64 { let c = tok_int(t); if c < 0 { st_last as u64 } else { c as u64 } };
    let out = match &name[..] {
        b"ESET" => { let ttl = tok_int(&op[4]);
            if ttl < 0 { e.set_string(0, tok_bytes(&op[2]).to_vec(), tok_bytes(&op[3]).to_vec()).unwrap(); }
            else { e.set_string_ex(0, tok_bytes(&op[2]).to_vec(), tok_bytes(&op[3]).to_vec(), Duration::from_millis(ttl as u64)).unwrap(); }
            vec![] }
        b"EDEL" => vec![i(e.delete(0, tok_bytes(&op[2])).unwrap() as i64)],
        b"EPEXPIRE" => vec![i(e.pexpire(0, tok_bytes(&op[2]), tok_int(&op[3]) as u64).unwrap() as i64)],
        b"ESADD" => cnt(e.sadd(0, tok_bytes(&op[2]).to_vec(), names_of(op, 3)), |n| n as i64),
        b"ESREM" => cnt(e.srem(0, tok_bytes(&op[2]), &names_of(op, 3)), |n| n as i64),
        b"EHSET" => { let l = names_of(op, 3); cnt(e.hset(0, tok_bytes(&op[2]).to_vec(), l.chunks(2).map(|c| (c[0].clone(), c[1].clone())).collect()), |n| n as i64) }
        b"EHDEL" => cnt(e.hdel(0, tok_bytes(&op[2]).to_vec(), &names_of(op, 3)), |n| n as i64),
        b"EZADD" => cnt(e.zadd(0, tok_bytes(&op[2]).to_vec(), tok_bytes(&op[3]).to_vec(), f64::from_bits(tok_int(&op[4]) as u64)), |x| x as i64),
        b"EZREM" => cnt(e.zrem(0, tok_bytes(&op[2]), tok_bytes(&op[3])), |x| x as i64),
        b"ELPUSH" => cnt(e.lpush(0, tok_bytes(&op[2]).to_vec(), names_of(op, 3)), |n| n as i64),
        b"ESCAN" => {
            let c = cur(st.last, &op[2]); o[2] = Tok::I(c as i128);
            let ty = opt(&op[5], &op[6]).map(|t| String::from_utf8_lossy(t).to_string());
            let (next, keys) = e.scan(0, c, opt(&op[3], &op[4]), ty.as_deref(), tok_int(&op[7]) as usize).unwrap();
            st.last = next as i128;
            *st.tally.entry(format!("ESCAN cursor={} next={} returned={} pat={} type={}", (c != 0) as u8, (next != 0) as u8, keys.len().min(2), tok_int(&op[3]), tok_int(&op[5]))).or_insert(0) += 1;
            let mut out = vec![Tok::I(next as i128)]; for k in &keys { out.push(bv(k)); } out
        }
        b"EHSCAN" => {
            let c = cur(st.last, &op[3]); o[3] = Tok::I(c as i128);
            let nov = tok_int(&op[7]) != 0;
            match e.hscan(0, tok_bytes(&op[2]), c, opt(&op[4], &op[5]), tok_int(&op[6]) as usize, nov) {
                Ok((next, items)) => {
                    st.last = next as i128;
                    *st.tally.entry(format!("EHSCAN cursor={} next={} returned={} pat={} nov={}", (c != 0) as u8, (next != 0) as u8, items.len().min(2), tok_int(&op[4]), nov)).or_insert(0) += 1;
                    // canonical order: by field (the fast path iterates the HashMap)
                    let mut out = vec![i(1), Tok::I(next as i128)];
                    if nov { let mut v = items; v.sort(); for x in &v { out.push(bv(x)); } }
                    else { let mut v: Vec<(Vec<u8>, Vec<u8>)> = items.chunks(2).map(|c| (c[0].clone(), c.get(1).cloned().unwrap_or_default())).collect(); v.sort();
                           for (f, x) in &v { out.push(bv(f)); out.push(bv(x)); } }
                    out
                }
                Err(_) => { *st.tally.entry("EHSCAN wrongtype".into()).or_insert(0) += 1; vec![i(0)] }
            }
        }
        b"ESSCAN" => {
            let c = cur(st.last, &op[3]); o[3] = Tok::I(c as i128);
            match e.sscan(0, tok_bytes(&op[2]), c, opt(&op[4], &op[5]), tok_int(&op[6]) as usize) {
                Ok((next, mut items)) => {
                    st.last = next as i128;
                    *st.tally.entry(format!("ESSCAN cursor={} next={} returned={} pat={}", (c != 0) as u8, (next != 0) as u8, items.len().min(2), tok_int(&op[4]))).or_insert(0) += 1;
                    items.sort();
                    let mut out = vec![i(1), Tok::I(next as i128)]; for x in &items { out.push(bv(x)); } out
                }
                Err(_) => { *st.tally.entry("ESSCAN wrongtype".into()).or_insert(0) += 1; vec![i(0)] }
            }
        }
        b"EZSCAN" => {
            let c = cur(st.last, &op[3]); o[3] = Tok::I(c as i128); o.truncate(7);
            match e.zscan(0, tok_bytes(&op[2]), c, opt(&op[4], &op[5]), tok_int(&op[6]) as usize) {
                Ok((next, items)) => {
                    st.last = next as i128;
                    *st.tally.entry(format!("EZSCAN cursor={} next={} returned={} pat={}", (c != 0) as u8, (next != 0) as u8, items.len().min(2), tok_int(&op[4]))).or_insert(0) += 1;
                    let mut out = vec![i(1), Tok::I(next as i128)];
                    for (m, s) in &items { let text = s.to_string(); o.push(bv(text.as_bytes())); out.push(bv(m)); out.push(Tok::I(s.to_bits() as i128)); out.push(bv(text.as_bytes())); }
                    out
                }
                Err(_) => { *st.tally.entry("EZSCAN wrongtype".into()).or_insert(0) += 1; vec![i(0)] }
            }
        }
        _ => vec![b("BADOP")],
    };
    (o, out)
}

fn scratch_dir() -> std::path::PathBuf {
    // <worktree>/build/target/debug/verif-harness -> <worktree>/build/scratch
    let exe = std::env::current_exe().unwrap();
    let build = exe.ancestors().nth(3).map(|p| p.to_path_buf()).unwrap_or_else(|| std::path::PathBuf::from("/tmp"));
    static N: std::sync::atomic::AtomicU64 = std::sync::atomic::AtomicU64::new(0);
    build.join("scratch").join(format!("c19_{}_{}", std::process::id(), N.fetch_add(1, std::sync::atomic::Ordering::SeqCst)))
}

/// Does the LISTEN socket on 127.0.0.1:port belong to process `pid`?  (/proc/net/tcp + /proc/pid/fd)
fn owns_port(pid: u32, port: u16) -> bool {
    let want = format!("0100007F:{:04X}", port);
    let tcp = match std::fs::read_to_string("/proc/net/tcp") { Ok(t) => t, Err(_) => return true };
    for line in tcp.lines().skip(1) {
        let f: Vec<&str> = line.split_whitespace().collect();
        if f.len() > 9 && f[1] == want && f[3] == "0A" {
            let link = format!("socket:[{}]", f[9]);
            if let Ok(rd) = std::fs::read_dir(format!("/proc/{}/fd", pid)) {
                for e in rd.flatten() { if let Ok(t) = std::fs::read_link(e.path()) { if t.to_string_lossy() == link { return true; } } }
            }
            return false;
        }
    }
    false
}

/// Srv::start picks an ephemeral port and lets the child bind it afterwards; with many harness
/// processes on one machine two servers can be given the same port and a client then talks to a
/// foreign server.  Here: a port from a private range below the ephemeral one, derived from the pid,
/// and the case starts only once the listening socket is verified to belong to our child.
fn start_private(dir: std::path::PathBuf) -> Srv {
    static K: std::sync::atomic::AtomicU64 = std::sync::atomic::AtomicU64::new(0);
    for _ in 0..40 {
        let k = K.fetch_add(1, std::sync::atomic::Ordering::SeqCst);
        let port = (12000 + (std::process::id() as u64 * 13 + k * 7) % 18000) as u16;
        std::fs::create_dir_all(&dir).unwrap();
        let mut c = std::process::Command::new(std::env::current_exe().unwrap());
        c.arg("serve").arg("--port").arg(port.to_string()).arg("--dir").arg(&dir)
            .current_dir(&dir).stdin(std::process::Stdio::null()).stdout(std::process::Stdio::null()).stderr(std::process::Stdio::null());
        let mut child = c.spawn().expect("spawn server");
        let t0 = std::time::Instant::now();
        loop {
            if let Ok(Some(_)) = child.try_wait() { break; }
            if owns_port(child.id(), port) && std::net::TcpStream::connect(("127.0.0.1", port)).is_ok() { return Srv { child, port, dir }; }
            if t0.elapsed() > Duration::from_secs(10) { let _ = child.kill(); let _ = child.wait(); break; }
            std::thread::sleep(Duration::from_millis(4));
        }
    }
    panic!("could not start server");
}

fn run_tcp_once(c: &Case) -> (Case, bool) {
    let mut r = Runner::new(&SrvOpts::default());   // Srv::start verifies through VERIF PID that it talks to its own child
    let mut out = Case { id: c.id.clone(), ops: vec![], outs: vec![] };
    let mut last: Vec<u8> = b"0".to_vec();
    let mut infra = false;
    for op in &c.ops {
        let op2: Vec<Tok> = op.iter().map(|t| match t { Tok::B(v) if v == b"$CUR" => Tok::B(last.clone()), x => x.clone() }).collect();
        let (o2, res) = r.op(&op2);
        if res.len() == 1 { if let Tok::B(w) = &res[0] { if [&b"TIMEOUT"[..], b"CLOSED", b"BADREPLY", b"NOCONN"].contains(&&w[..]) { infra = true; } } }
        // reply [5 2 3 <cursor> ...]: an array of two whose first element is a bulk string
        if res.len() >= 4 && res[0] == i(5) && res[1] == i(2) && res[2] == i(3) { if let Tok::B(cu) = &res[3] { last = cu.clone(); } }
        out.ops.push(o2); out.outs.push(res);
    }
    let drift = r.drift_bad;
    let alive = r.finish();
    if !alive { out.ops.push(vec![b("ALIVE")]); out.outs.push(vec![i(0)]); infra = true; }
    if drift { out.id = format!("{}-DISCARD", out.id); }
    (out, infra)
}

/// No SCAN-family command can time out, close the connection or kill the server: such an outcome
/// is an overloaded machine (or a lost port race) and the case is run again on a fresh server; if
/// it persists it is reported as it is.
fn run_tcp(c: &Case) -> Case {
    let (out, infra) = run_tcp_once(c);
    if !infra { return out; }
    std::thread::sleep(Duration::from_millis(200));
    run_tcp_once(c).0
}

pub fn run(c: &Case) -> Case {
    let tcp = c.ops.first().map_or(false, |o| o.first() == Some(&b("CONN")));
    if tcp { return run_tcp(c); }
    let mut st = Eng { e: StorageEngine::new(), logical: 0, last: 0, tally: BTreeMap::new() };
    let mut r = Case { id: c.id.clone(), ops: vec![], outs: vec![] };
    for op in &c.ops {
        let res = std::panic::catch_unwind(std::panic::AssertUnwindSafe(|| eng_op(&mut st, op)));
        match res { Ok((o, out)) => { r.ops.push(o); r.outs.push(out); } Err(_) => { r.ops.push(op.clone()); r.outs.push(vec![b("PANIC")]); } }
    }
    if std::env::var("VERIF_TALLY").is_ok() { for (k, v) in &st.tally { eprintln!("TALLY {} {}", v, k); } }
    r
}

// ---------------------------------------------------------------- generators
fn e(name: &str, rest: Vec<Tok>) -> Vec<Tok> { let mut o = vec![b(name), i(0)]; o.extend(rest); o }
fn optt(p: Option<&[u8]>) -> [Tok; 2] { match p { Some(x) => [i(1), bv(x)], None => [i(0), bv(b"")] } }
fn escan(cursor: i128, pat: Option<&[u8]>, ty: Option<&[u8]>, count: i64) -> Vec<Tok> {
    let mut v = vec![Tok::I(cursor)]; v.extend(optt(pat)); v.extend(optt(ty)); v.push(i(count)); e("ESCAN", v)
}
fn ekscan(name: &str, key: &[u8], cursor: i128, pat: Option<&[u8]>, count: i64, nov: Option<bool>) -> Vec<Tok> {
    let mut v = vec![bv(key), Tok::I(cursor)]; v.extend(optt(pat)); v.push(i(count)); if let Some(n) = nov { v.push(i(n as i64)); } e(name, v)
}
fn odd_cursor(r: &mut Rng, n: usize) -> i128 {
    *r.pick(&[0i128, 1, 2, n as i128 - 1, n as i128, n as i128 + 1, 18446744073709551615, 9223372036854775808, 3, 10])
}
fn maybe<'a>(r: &mut Rng, pool: &'a [&'a [u8]], num: u64, den: u64) -> Option<&'a [u8]> { if r.chance(num, den) { Some(*r.pick(pool)) } else { None } }

/// create one key of a random type
fn mk_key(r: &mut Rng, k: &[u8], ops: &mut Vec<Vec<Tok>>, kinds: &mut BTreeMap<Vec<u8>, u8>) {
    let kind = *kinds.get(k).unwrap_or(&(if r.chance(3, 5) { 0 } else { 1 + r.below(4) as u8 }));
    kinds.insert(k.to_vec(), kind);
    match kind {
        0 => ops.push(e("ESET", vec![bv(k), bv(b"v"), i(if r.chance(1, 10) { 100000 } else { -1 })])),
        1 => ops.push(e("ESADD", vec![bv(k), bv(b"m1"), bv(b"m2")])),
        2 => ops.push(e("EHSET", vec![bv(k), bv(b"f"), bv(b"v")])),
        3 => ops.push(e("EZADD", vec![bv(k), bv(b"m"), Tok::I(1.5f64.to_bits() as i128)])),
        _ => ops.push(e("ELPUSH", vec![bv(k), bv(b"x")])),
    }
}

fn gen_keyspace(r: &mut Rng, expiry: bool) -> Vec<Vec<Tok>> {
    let pool = key_pool();
    let mut ops = vec![]; let mut kinds = BTreeMap::new();
    let mut dead: BTreeSet<Vec<u8>> = BTreeSet::new();      // keys that got a short TTL: never touched again
    let nk = if r.chance(1, 3) { 3 + r.below(6) } else { 8 + r.below(22) } as usize;
    let mut live: Vec<Vec<u8>> = vec![];
    for _ in 0..nk { let k = r.pick(&pool).clone(); mk_key(r, &k, &mut ops, &mut kinds); if !live.contains(&k) { live.push(k); } }
    for _ in 0..1 + r.below(4) {
        let pat = maybe(r, PATTERNS, 1, 2); let ty = maybe(r, TYPES, 1, 3);
        let count = *r.pick(COUNTS);
        let first = if r.chance(1, 8) { odd_cursor(r, live.len()) } else { 0 };
        ops.push(escan(first, pat, ty, count));
        let steps = if count == 0 { 4 } else { (live.len() as i64 / count.max(1) + 2).min(14) };
        for _ in 0..steps {
            // between calls: additions / deletions of other keys (C19's quantifier)
            let m = r.below(10);
            if m < 3 { let k = r.pick(&pool).clone(); if !dead.contains(&k) { mk_key(r, &k, &mut ops, &mut kinds); if !live.contains(&k) { live.push(k); } } }
            else if m < 5 && !live.is_empty() { let k = r.pick(&live).clone(); if !dead.contains(&k) { ops.push(e("EDEL", vec![bv(&k)])); live.retain(|x| *x != k); kinds.remove(&k); } }
            else if m == 5 && expiry && !live.is_empty() {
                let k = r.pick(&live).clone();
                if !dead.contains(&k) { ops.push(e("EPEXPIRE", vec![bv(&k), i(15)])); ops.push(vec![b("SLEEP"), i(40)]); dead.insert(k); }
            }
            let c = if r.chance(1, 10) { *r.pick(COUNTS) } else { count };
            ops.push(escan(if r.chance(1, 12) { odd_cursor(r, live.len()) } else { -1 }, pat, ty, c));
        }
    }
    ops.push(escan(0, None, None, 1000));
    ops
}

fn gen_collections(r: &mut Rng, expiry: bool) -> Vec<Vec<Tok>> {
    let members: Vec<Vec<u8>> = key_pool();
    let keys: [&[u8]; 4] = [b"s", b"h", b"z", b"str"];
    let mut ops = vec![e("ESET", vec![bv(b"str"), bv(b"v"), i(-1)])];
    let n = if r.chance(1, 2) { 1 + r.below(6) } else { 6 + r.below(25) } as usize;
    let mut dead = false;
    for _ in 0..n {
        let m = r.pick(&members).clone();
        ops.push(e("ESADD", vec![bv(b"s"), bv(&m)]));
        ops.push(e("EHSET", vec![bv(b"h"), bv(&m), bv(format!("v{}", r.below(5)).as_bytes())]));
        ops.push(e("EZADD", vec![bv(b"z"), bv(&m), Tok::I(r.pick(SCORES).to_bits() as i128)]));
    }
    if r.chance(1, 10) { ops.push(e("ESADD", vec![bv(b"empty")])); ops.push(ekscan("ESSCAN", b"empty", 0, maybe(r, PATTERNS, 1, 2), 10, None)); }
    for _ in 0..2 + r.below(5) {
        let which = r.below(3);
        let key: &[u8] = if r.chance(1, 10) { *r.pick(&[&b"str"[..], b"nokey", b"s", b"h", b"z"]) } else { keys[which as usize] };
        let name = ["ESSCAN", "EHSCAN", "EZSCAN"][which as usize];
        let nov = if which == 1 { Some(r.chance(1, 3)) } else { None };
        let pat = maybe(r, PATTERNS, 2, 5); let count = *r.pick(COUNTS);
        let first = if r.chance(1, 8) { odd_cursor(r, n) } else { 0 };
        ops.push(ekscan(name, key, first, pat, count, nov));
        let steps = if count == 0 { 3 } else { (n as i64 / count.max(1) + 2).min(12) };
        for _ in 0..steps {
            let m = r.pick(&members).clone();
            if !dead { match r.below(12) {
                0 => ops.push(e("ESADD", vec![bv(b"s"), bv(&m)])), 1 => ops.push(e("ESREM", vec![bv(b"s"), bv(&m)])),
                2 => ops.push(e("EHSET", vec![bv(b"h"), bv(&m), bv(b"w")])), 3 => ops.push(e("EHDEL", vec![bv(b"h"), bv(&m)])),
                4 => ops.push(e("EZADD", vec![bv(b"z"), bv(&m), Tok::I(r.pick(SCORES).to_bits() as i128)])), 5 => ops.push(e("EZREM", vec![bv(b"z"), bv(&m)])),
                6 if expiry => { ops.push(e("EPEXPIRE", vec![bv(keys[which as usize]), i(15)])); ops.push(vec![b("SLEEP"), i(40)]); dead = true; }
                _ => {}
            } }
            ops.push(ekscan(name, key, if r.chance(1, 12) { odd_cursor(r, n) } else { -1 }, pat, if r.chance(1, 10) { *r.pick(COUNTS) } else { count }, nov));
        }
    }
    ops
}

fn tcp_cmd(r: &mut Rng, keys: &[Vec<u8>]) -> Vec<Vec<u8>> {
    let v = |x: &[u8]| x.to_vec();
    let cursor = |r: &mut Rng| -> Vec<u8> { if r.chance(3, 4) { v(b"$CUR") } else { v(*r.pick(&[&b"0"[..], b"1", b"2", b"5", b"100", b"abc", b"-1", b"+3", b"", b"18446744073709551615", b"18446744073709551616", b"007", b" 1"])) } };
    let opts = |r: &mut Rng, c: &mut Vec<Vec<u8>>, scan: bool, h: bool| {
        for _ in 0..r.below(4) {
            match r.below(18) {
                0..=2 => { c.push(v(*r.pick(&[&b"MATCH"[..], b"match", b"Match"]))); c.push(v(*r.pick(PATTERNS))); }
                3..=5 => { c.push(v(*r.pick(&[&b"COUNT"[..], b"count"]))); c.push(v(*r.pick(&[&b"1"[..], b"2", b"3", b"10", b"0", b"1000", b"5000", b"abc", b"-1", b"+2", b"", b"18446744073709551616", b"7"]))); }
                6 | 7 if scan => { c.push(v(*r.pick(&[&b"TYPE"[..], b"type"]))); c.push(v(*r.pick(TYPES))); }
                6 if h => c.push(v(b"NOVALUES")),
                8 => c.push(v(*r.pick(&[&b"MATCH"[..], b"COUNT", b"TYPE"]))),      // option without its value
                9 => c.push(v(*r.pick(&[&b"BOGUS"[..], b"NOVALUES", b"TYPE", b""]))),
                _ => {}
            }
        }
    };
    match r.below(20) {
        0..=9 => { let mut c = vec![v(*r.pick(&[&b"SCAN"[..], b"scan"])), cursor(r)]; opts(r, &mut c, true, false); c }
        10 => vec![v(b"SCAN")],
        11 | 12 => { let nm = *r.pick(&[&b"HSCAN"[..], b"SSCAN", b"ZSCAN"]); let mut c = vec![v(nm), r.pick(keys).clone(), cursor(r)]; opts(r, &mut c, false, nm == b"HSCAN"); c }
        13 => vec![v(*r.pick(&[&b"HSCAN"[..], b"SSCAN", b"ZSCAN"])), r.pick(keys).clone()],
        14 | 15 => vec![v(b"SET"), r.pick(keys).clone(), v(b"v")],
        16 | 17 => vec![v(b"DEL"), r.pick(keys).clone()],
        _ => vec![v(b"SET"), format!("n{}", r.below(6)).into_bytes(), v(b"x")],
    }
}

fn gen_tcp(r: &mut Rng) -> Vec<Vec<Tok>> {
    let pool = key_pool();
    let keys: Vec<Vec<u8>> = (0..3 + r.below(20)).map(|_| r.pick(&pool).clone()).collect();
    let mut ops = vec![conn_op(1)];
    for k in &keys { ops.push(cmd_op(1, &[b"SET", k, b"v"])); }
    for _ in 0..10 + r.below(30) {
        let c = tcp_cmd(r, &keys);
        let refs: Vec<&[u8]> = c.iter().map(|x| &x[..]).collect();
        if r.chance(1, 25) && refs.len() >= 2 {
            let pos = 1 + r.below(refs.len() as u64 - 1) as usize;
            let mut fr: Vec<V> = refs.iter().map(|a| V::Bulk(a.to_vec())).collect();
            fr[pos] = if r.chance(1, 2) { V::Int(0) } else { V::NullBulk };
            ops.push(cmd_frame_op(1, &V::Array(fr)));
        } else { ops.push(cmd_op(1, &refs)); }
    }
    ops.push(cmd_op(1, &[b"SCAN", b"0", b"COUNT", b"1000"]));
    ops.push(cmd_op(1, &[b"KEYS", b"*"]));
    ops.push(cmd_op(1, &[b"DBSIZE"]));
    ops
}

pub fn gen(seed: u64, n: usize, tier: &str) -> Vec<Case> {
    let mut r = Rng::new(seed);
    let mut cases = vec![];
    // F-19a: a b c d; SCAN 0 COUNT 2 -> 2; DEL a; SCAN 2 -> d, 0: c is never returned
    let mut w = vec![];
    for k in [b"a", b"b", b"c", b"d"] { w.push(e("ESET", vec![bv(k), bv(b"v"), i(-1)])); }
    w.push(escan(0, None, None, 2)); w.push(e("EDEL", vec![bv(b"a")])); w.push(escan(-1, None, None, 2));
    cases.push(Case { id: "e-w-shift".into(), ops: w, outs: vec![] });
    // bounds of the loop: more than 1000 members (cap), count 1 with a pattern matching nothing (10 examined)
    let mut big = vec![];
    for chunk in (0..1205).collect::<Vec<u32>>().chunks(100) { let mut v = vec![bv(b"big")]; for m in chunk { v.push(bv(format!("m{:04}", m).as_bytes())); } big.push(e("ESADD", v)); }
    for (c, p) in [(5000i64, None), (1000, None), (1001, None), (0, None), (5000, Some(&b"m1*"[..])), (1, Some(&b"zz*"[..])), (100, Some(&b"*7"[..])), (2, Some(&b"zz*"[..]))] {
        big.push(ekscan("ESSCAN", b"big", 0, p, c, None)); for _ in 0..3 { big.push(ekscan("ESSCAN", b"big", -1, p, c, None)); }
    }
    cases.push(Case { id: "b-big".into(), ops: big, outs: vec![] });
    // sparse matches: long runs of elements the filter rejects (whole pages come back empty) before,
    // between and after the matching ones, on a static space; complete iterations with small COUNTs
    for (id, (na, nm, nz)) in [(3usize, 25usize, 3usize), (0, 40, 2), (2, 12, 0), (1, 60, 5)].iter().enumerate() {
        let mut ops = vec![];
        for k in 0..*na { ops.push(e("ESET", vec![bv(format!("a:{}", k).as_bytes()), bv(b"v"), i(-1)])); }
        for k in 0..*nm { if k % 7 == 3 { ops.push(e("ELPUSH", vec![bv(format!("m:{:02}", k).as_bytes()), bv(b"x")])); } else { ops.push(e("ESET", vec![bv(format!("m:{:02}", k).as_bytes()), bv(b"v"), i(-1)])); } }
        for k in 0..*nz { ops.push(e("ESET", vec![bv(format!("z:{}", k).as_bytes()), bv(b"v"), i(-1)])); ops.push(e("ELPUSH", vec![bv(format!("z:l{}", k).as_bytes()), bv(b"x")])); }
        for (pat, ty) in [(Some(&b"z:*"[..]), None), (Some(&b"a:*"[..]), None), (Some(&b"*:l?"[..]), None), (Some(&b"z:*"[..]), Some(&b"list"[..])), (None, Some(&b"list"[..])), (Some(&b"nomatch*"[..]), None)] {
            for count in [1i64, 2, 3, 10] {
                let total = na + nm + 2 * nz;
                ops.push(escan(0, pat, ty, count));
                for _ in 0..(total as i64 / count + 2) { ops.push(escan(-1, pat, ty, count)); }
            }
        }
        // the same inside one key: members of a set / fields of a hash / members of a sorted set
        let mut v = vec![bv(b"S")]; for k in 0..*nm { v.push(bv(format!("m:{:02}", k).as_bytes())); } for k in 0..*nz { v.push(bv(format!("z:{}", k).as_bytes())); } ops.push(e("ESADD", v));
        for k in 0..*nm { ops.push(e("EHSET", vec![bv(b"H"), bv(format!("m:{:02}", k).as_bytes()), bv(b"w")])); }
        for k in 0..*nz { ops.push(e("EHSET", vec![bv(b"H"), bv(format!("z:{}", k).as_bytes()), bv(b"w")])); }
        for (name, key) in [("ESSCAN", &b"S"[..]), ("EHSCAN", b"H")] {
            for count in [1i64, 3] {
                ops.push(ekscan(name, key, 0, Some(b"z:*"), count, if name == "EHSCAN" { Some(false) } else { None }));
                for _ in 0..((nm + nz) as i64 / count + 2) { ops.push(ekscan(name, key, -1, Some(b"z:*"), count, if name == "EHSCAN" { Some(false) } else { None })); }
            }
        }
        cases.push(Case { id: format!("e-sparse-{}", id), ops, outs: vec![] });
    }
    let nx = if tier == "thorough" { n / 10 } else { n / 15 };
    for id in 0..n {
        let ops = match id % 5 { 0 | 1 => gen_keyspace(&mut r, false), 2 | 3 => gen_collections(&mut r, false), _ => gen_tcp(&mut r) };
        let tag = if id % 5 == 4 { "t" } else { "e" };
        cases.push(Case { id: format!("{}-{}", tag, id), ops, outs: vec![] });
    }
    for id in 0..nx {
        let ops = if id % 2 == 0 { gen_keyspace(&mut r, true) } else { gen_collections(&mut r, true) };
        cases.push(Case { id: format!("x-{}", id), ops, outs: vec![] });
    }
    cases
}

// ---------------------------------------------------------------- property oracle
/// One element space: the key space (id = None) or the members/fields of one key.
#[derive(Default)]
struct Iter { active: bool, pat: Option<Vec<u8>>, ty: Option<Vec<u8>>, required: BTreeSet<Vec<u8>>, returned: BTreeSet<Vec<u8>>, boundary: Option<Vec<u8>>, shifted: bool, calls: usize, next: i128 }

fn simple_pat(p: &Option<Vec<u8>>) -> bool { p.as_ref().map_or(true, |p| !p.contains(&b'[') && !p.contains(&b'\\')) }
fn glob(p: &[u8], s: &[u8]) -> bool {
    if p.is_empty() { return s.is_empty(); }
    match p[0] { b'*' => glob(&p[1..], s) || (!s.is_empty() && glob(p, &s[1..])), b'?' => !s.is_empty() && glob(&p[1..], &s[1..]),
                 c => !s.is_empty() && c == s[0] && glob(&p[1..], &s[1..]) }
}

/// Property on the implementation's outputs for in-process cases without expiry: during a complete
/// iteration (cursor 0 ... returned cursor 0, same MATCH/TYPE) every element present from the first
/// to the last call is returned; nothing is returned that does not exist at the time of the call or
/// fails the filters.  A miss after an addition/deletion below the position reached so far is the
/// (former) class scan-shift - repaired by e3de5de, no longer excused.
pub fn judge(c: &Case, outs: &[Vec<Tok>]) -> Vec<String> {
    let mut fails = vec![];
    if !(c.id.starts_with("e-") || c.id.starts_with("b-")) { return fails; }
    // spaces: "" = key space (elements = keys, with a type), "s:<key>" etc. = members of a key
    let mut elems: BTreeMap<Vec<u8>, BTreeMap<Vec<u8>, u8>> = BTreeMap::new();   // space -> element -> kind
    let mut iters: BTreeMap<Vec<u8>, Iter> = BTreeMap::new();
    let tyname = |k: u8| -> &'static [u8] { match k { 0 => b"string", 1 => b"set", 2 => b"hash", 3 => b"zset", _ => b"list" } };
    fn visible(it: &Iter, el: &[u8], kind: u8, tyname: &dyn Fn(u8) -> &'static [u8]) -> bool { it.ty.as_ref().map_or(true, |t| &t[..] == tyname(kind)) && { let _ = el; true } }
    let touch = |iters: &mut BTreeMap<Vec<u8>, Iter>, space: &[u8], el: &[u8], kind: u8, removed: bool| {
        if let Some(it) = iters.get_mut(space) { if it.active {
            if removed { it.required.remove(el); }
            if visible(it, el, kind, &tyname) { if let Some(bd) = &it.boundary { if el < &bd[..] { it.shifted = true; } } }
        } }
    };
    for (k, (op, out)) in c.ops.iter().zip(outs.iter()).enumerate() {
        if out.first() == Some(&b("PANIC")) { fails.push(format!("FAIL case={} op={} panic", c.id, k)); continue; }
        let name = tok_bytes(&op[0]).to_vec();
        let wrong = out.first() == Some(&b("WRONGTYPE"));
        let key = |n: usize| tok_bytes(&op[n]).to_vec();
        let space_of = |key: &[u8]| { let mut s = b"k:".to_vec(); s.extend(key); s };
        match &name[..] {
            b"ESET" | b"ESADD" | b"EHSET" | b"EZADD" | b"ELPUSH" if !wrong => {
                let kind = match &name[..] { b"ESET" => 0, b"ESADD" => 1, b"EHSET" => 2, b"EZADD" => 3, _ => 4 };
                let kk = key(2);
                let existed = elems.entry(vec![]).or_default().insert(kk.clone(), kind);
                if existed != Some(kind) { touch(&mut iters, b"", &kk, kind, existed.is_some()); if let Some(old) = existed { touch(&mut iters, b"", &kk, old, true); } }
                if kind == 0 { elems.remove(&space_of(&kk)); }
                let ms: Vec<Vec<u8>> = match kind { 1 => names_of(op, 3), 2 => names_of(op, 3).chunks(2).map(|c| c[0].clone()).collect(), 3 => vec![key(3)], _ => vec![] };
                for m in ms { let sp = space_of(&kk); if elems.entry(sp.clone()).or_default().insert(m.clone(), 0).is_none() { touch(&mut iters, &sp, &m, 0, false); } }
            }
            b"EDEL" => { let kk = key(2); if let Some(kind) = elems.entry(vec![]).or_default().remove(&kk) { touch(&mut iters, b"", &kk, kind, true); }
                         let sp = space_of(&kk); if let Some(ms) = elems.remove(&sp) { for (m, _) in ms { touch(&mut iters, &sp, &m, 0, true); } } }
            b"ESREM" | b"EHDEL" | b"EZREM" if !wrong => {
                let kk = key(2); let sp = space_of(&kk);
                for m in names_of(op, 3) { if elems.entry(sp.clone()).or_default().remove(&m).is_some() { touch(&mut iters, &sp, &m, 0, true); } }
                if elems.get(&sp).map_or(false, |m| m.is_empty()) { elems.remove(&sp); if let Some(kind) = elems.entry(vec![]).or_default().remove(&kk) { touch(&mut iters, b"", &kk, kind, true); } }
            }
            b"ESCAN" | b"ESSCAN" | b"EHSCAN" | b"EZSCAN" => {
                let ks = name != b"ESCAN";
                if ks && tok_int(&out[0]) == 0 { continue; }
                let (space, cursor, pat, ty, next, items): (Vec<u8>, i128, Option<Vec<u8>>, Option<Vec<u8>>, i128, Vec<Vec<u8>>) = if !ks {
                    (vec![], tok_int(&op[2]), opt(&op[3], &op[4]).map(|x| x.to_vec()), opt(&op[5], &op[6]).map(|x| x.to_vec()), tok_int(&out[0]), names_of(out, 1))
                } else {
                    let all = names_of(out, 2);
                    let items = if name == b"EHSCAN" && tok_int(&op[7]) == 0 { all.chunks(2).map(|c| c[0].clone()).collect() } else if name == b"EZSCAN" { all.chunks(2).map(|c| c[0].clone()).collect() } else { all };
                    (space_of(&key(2)), tok_int(&op[3]), opt(&op[4], &op[5]).map(|x| x.to_vec()), None, tok_int(&out[1]), items)
                };
                let cur_elems: BTreeMap<Vec<u8>, u8> = elems.get(&space).cloned().unwrap_or_default();
                let matches = |it_pat: &Option<Vec<u8>>, el: &[u8]| it_pat.as_ref().map_or(true, |p| glob(p, el));
                // soundness
                for x in &items {
                    match cur_elems.get(x) {
                        None => fails.push(format!("FAIL case={} op={} returned an element that does not exist", c.id, k)),
                        Some(kind) => {
                            if ty.as_ref().map_or(false, |t| &t[..] != tyname(*kind)) { fails.push(format!("FAIL case={} op={} returned a key of another type", c.id, k)); }
                            if simple_pat(&pat) && !matches(&pat, x) { fails.push(format!("FAIL case={} op={} returned an element that does not match", c.id, k)); }
                        }
                    }
                }
                let it = iters.entry(space.clone()).or_default();
                let cont = it.active && cursor != 0 && cursor == it.next && it.pat == pat && it.ty == ty;
                if cursor == 0 {
                    *it = Iter { active: true, pat: pat.clone(), ty: ty.clone(), ..Default::default() };
                    it.required = cur_elems.iter().filter(|(el, kind)| ty.as_ref().map_or(true, |t| &t[..] == tyname(**kind)) && matches(&pat, el)).map(|(el, _)| el.clone()).collect();
                } else if !cont { it.active = false; }
                if it.active {
                    it.calls += 1; it.next = next;
                    for x in &items { it.returned.insert(x.clone()); }
                    let vis: Vec<&Vec<u8>> = cur_elems.iter().filter(|(_, kind)| ty.as_ref().map_or(true, |t| &t[..] == tyname(**kind))).map(|(el, _)| el).collect();
                    if next == 0 {
                        if simple_pat(&pat) {
                            let missing: Vec<&Vec<u8>> = it.required.iter().filter(|x| !it.returned.contains(*x)).collect();
                            if !missing.is_empty() {
                                let class = "";      // no exception any more: the cursor (a hash) keeps its meaning under churn (e3de5de)
                                fails.push(format!("FAIL case={} op={} a full iteration ({} calls) never returned {:?}, present throughout{}", c.id, k, it.calls, String::from_utf8_lossy(missing[0]), class));
                            }
                        }
                        it.active = false;
                    } else {
                        let _ = &vis;
                        if it.calls > 3000 { fails.push(format!("FAIL case={} op={} iteration does not terminate", c.id, k)); it.active = false; }
                    }
                }
            }
            _ => {}
        }
    }
    fails
}
