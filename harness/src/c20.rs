//! C20: RESP codec round-trip / chunking independence / totality.
use crate::rng::Rng;
use crate::tok::*;
use ferrous::protocol::{serialize_resp_frame, RespFrame, RespParser};
use std::sync::Arc;

// ---- frame <-> tokens (same prefix code as Model/RunBase.v) ----
pub fn enc_frame(f: &RespFrame, out: &mut Vec<Tok>) {
    match f {
        RespFrame::SimpleString(b) => { out.push(i(0)); out.push(bv(b)); }
        RespFrame::Error(b) => { out.push(i(1)); out.push(bv(b)); }
        RespFrame::Integer(n) => { out.push(i(2)); out.push(i(*n)); }
        RespFrame::BulkString(Some(b)) => { out.push(i(3)); out.push(bv(b)); }
        RespFrame::BulkString(None) => out.push(i(4)),
        RespFrame::Array(Some(l)) => { out.push(i(5)); out.push(i(l.len() as i64)); for x in l { enc_frame(x, out); } }
        RespFrame::Array(None) => out.push(i(6)),
        RespFrame::NoResponse => out.push(i(7)),
        RespFrame::Null => out.push(i(8)),
        RespFrame::Boolean(x) => { out.push(i(9)); out.push(i(*x as i64)); }
        RespFrame::Double(d) => { out.push(i(10)); out.push(Tok::I(d.to_bits() as i128)); }
        RespFrame::Map(l) => { out.push(i(11)); out.push(i(2 * l.len() as i64)); for (k, v) in l { enc_frame(k, out); enc_frame(v, out); } }
        RespFrame::Set(l) => { out.push(i(12)); out.push(i(l.len() as i64)); for x in l { enc_frame(x, out); } }
    }
}

pub fn dec_frame(t: &[Tok], pos: &mut usize) -> RespFrame {
    let tag = tok_int(&t[*pos]); *pos += 1;
    let mut list = |pos: &mut usize| -> Vec<RespFrame> {
        let n = tok_int(&t[*pos]); *pos += 1;
        (0..n).map(|_| dec_frame(t, pos)).collect()
    };
    match tag {
        0 => { let r = RespFrame::SimpleString(Arc::new(tok_bytes(&t[*pos]).to_vec())); *pos += 1; r }
        1 => { let r = RespFrame::Error(Arc::new(tok_bytes(&t[*pos]).to_vec())); *pos += 1; r }
        2 => { let r = RespFrame::Integer(tok_int(&t[*pos]) as i64); *pos += 1; r }
        3 => { let r = RespFrame::BulkString(Some(Arc::new(tok_bytes(&t[*pos]).to_vec()))); *pos += 1; r }
        4 => RespFrame::BulkString(None),
        5 => RespFrame::Array(Some(list(pos))),
        6 => RespFrame::Array(None),
        7 => RespFrame::NoResponse,
        8 => RespFrame::Null,
        9 => { let r = RespFrame::Boolean(tok_int(&t[*pos]) != 0); *pos += 1; r }
        10 => { let r = RespFrame::Double(f64::from_bits(tok_int(&t[*pos]) as u64)); *pos += 1; r }
        11 => { let l = list(pos); let mut it = l.into_iter(); let mut v = vec![];
                while let Some(k) = it.next() { let val = it.next().expect("odd map"); v.push((k, val)); }
                RespFrame::Map(v) }
        12 => RespFrame::Set(list(pos)),
        _ => panic!("bad frame tag"),
    }
}

fn collect_doubles(f: &RespFrame, out: &mut Vec<u64>) {
    match f {
        RespFrame::Double(d) => out.push(d.to_bits()),
        RespFrame::Array(Some(l)) | RespFrame::Set(l) => for x in l { collect_doubles(x, out) },
        RespFrame::Map(l) => for (k, v) in l { collect_doubles(k, out); collect_doubles(v, out) },
        _ => {}
    }
}

// ---- generators ----
const SCORES: &[u64] = &[0, 0x8000000000000000, 0x3ff0000000000000, 0xbff0000000000000, 0x7ff0000000000000,
    0xfff0000000000000, 0x7ff8000000000000, 1, 0x4340000000000000, 0x4340000000000001, 0x3fb999999999999a,
    0x7fefffffffffffff, 0x400921fb54442d18, 0x0010000000000000];
const INTS: &[i64] = &[0, 1, -1, 9, 10, -10, 127, 255, 65535, i64::MAX, i64::MIN, i64::MAX - 1, i64::MIN + 1, 1000000007];

fn gen_payload(r: &mut Rng, hostile: bool) -> Vec<u8> {
    let n = match r.below(10) { 0 => 0, 1..=5 => r.below(8), 6..=8 => r.below(40), _ => r.below(300) } as usize;
    let alpha: &[u8] = if hostile { b"\r\n+-:$*_#,%~0123456789PING xtf\x00\xff" } else { b"abcxyz0123456789 -_:\x00\xff\x80" };
    let mut v: Vec<u8> = (0..n).map(|_| *r.pick(alpha)).collect();
    if !hostile {
        // keep simple strings free of CR LF pairs: payload alphabet has neither
        v.retain(|c| *c != b'\r' && *c != b'\n');
    }
    v
}

pub fn gen_frame(r: &mut Rng, depth: u32, wf: bool) -> RespFrame {
    let leaf = depth >= 5 || r.chance(3, 5);
    let k = if leaf { r.below(9) } else { 9 + r.below(3) };
    match k {
        0 => { let h = !wf && r.chance(1, 2); RespFrame::SimpleString(Arc::new(gen_payload(r, h))) }
        1 => { let h = !wf && r.chance(1, 2); RespFrame::Error(Arc::new(gen_payload(r, h))) }
        2 => RespFrame::Integer(if r.chance(1, 2) { *r.pick(INTS) } else { r.range(-100000, 100000) }),
        3 => RespFrame::BulkString(Some(Arc::new(gen_payload(r, true)))),
        4 => RespFrame::BulkString(None),
        5 => RespFrame::Array(None),
        6 => if r.chance(1, 3) { RespFrame::Null } else { RespFrame::Boolean(r.chance(1, 2)) },
        7 => { let mut b = *r.pick(SCORES); if !wf && r.chance(1, 4) { b = r.next(); } if wf && f64::from_bits(b).is_nan() { b = 0x4000000000000000; } RespFrame::Double(f64::from_bits(b)) }
        8 => if !wf && r.chance(1, 3) { RespFrame::NoResponse } else { RespFrame::BulkString(Some(Arc::new(gen_payload(r, true)))) },
        9 => { let n = r.below(5); RespFrame::Array(Some((0..n).map(|_| gen_frame(r, depth + 1, wf)).collect())) }
        10 => { let n = r.below(4); RespFrame::Map((0..n).map(|_| (gen_frame(r, depth + 1, wf), gen_frame(r, depth + 1, wf))).collect()) }
        _ => { let n = r.below(5); RespFrame::Set((0..n).map(|_| gen_frame(r, depth + 1, wf)).collect()) }
    }
}

fn nested(depth: usize, kind: u8) -> Vec<u8> {
    let mut v = Vec::new();
    for _ in 0..depth { v.push(kind); v.extend_from_slice(b"1\r\n"); }
    v.extend_from_slice(b":7\r\n");
    v
}

fn chunkings(r: &mut Rng, data: &[u8], out: &mut Vec<Vec<Vec<u8>>>, exhaustive_two: bool) {
    out.push(vec![data.to_vec()]);
    if data.is_empty() { return; }
    // one byte at a time
    if data.len() <= 200 { out.push(data.iter().map(|c| vec![*c]).collect()); }
    if exhaustive_two && data.len() <= 40 {
        for k in 1..data.len() { out.push(vec![data[..k].to_vec(), data[k..].to_vec()]); }
    } else {
        for _ in 0..3 {
            let k = 1 + r.below(data.len() as u64 - 0) as usize; let k = k.min(data.len());
            out.push(vec![data[..k].to_vec(), data[k..].to_vec()]);
        }
    }
    // random multi-cut
    for _ in 0..2 {
        let mut cs = vec![]; let mut p = 0;
        while p < data.len() { let n = 1 + r.below(7.min((data.len() - p) as u64)) as usize; cs.push(data[p..p + n].to_vec()); p += n; }
        out.push(cs);
    }
}

fn parse_op(chunks: &[Vec<u8>]) -> Vec<Tok> {
    let mut op = vec![b("PARSE"), i(0)];
    for c in chunks { op.push(bv(c)); }
    op
}

pub fn gen(seed: u64, n: usize, tier: &str) -> Vec<Case> {
    let mut r = Rng::new(seed);
    let mut cases = Vec::new();
    let mut id = 0;
    let mut push = |ops: Vec<Vec<Tok>>, tag: &str, id: &mut usize| {
        cases.push(Case { id: format!("{}-{}", tag, id), ops, outs: vec![] }); *id += 1;
    };
    // corpus-like fixed inputs: every witness of DESIGN section 4 for C20
    let fixed: Vec<Vec<u8>> = vec![
        b"*9223372036854775807\r\n".to_vec(), b"%18446744073709551615\r\n".to_vec(), b"~99999999999\r\n".to_vec(),
        b"*1000000000\r\n".to_vec(), b"PING\r\n".to_vec(), b"PI".to_vec(), b"PINGPING".to_vec(), b"  \r\n\tPING \r\n+OK\r\n".to_vec(),
        b"$-1\r\n*-1\r\n$-2\r\n".to_vec(), b"*-2\r\n".to_vec(), b"$5\r\nab\r\nc\r\n".to_vec(), b"$2\r\nabcd".to_vec(), b"_\r\n#t\r\n#f\r\n#x\r\n".to_vec(),
        b":+5\r\n:-0\r\n:007\r\n:\r\n".to_vec(), b":9223372036854775808\r\n".to_vec(), b"%+1\r\n+a\r\n:1\r\n~-0\r\n".to_vec(),
        b",1.5\r\n,inf\r\n,-inf\r\n,nan\r\n,1e400\r\n,abc\r\n".to_vec(), b"+a\rb\r\n".to_vec(), b"*1\r\n$x\r\n".to_vec(),
        nested(32, b'*'), nested(33, b'*'), nested(34, b'*'), nested(40, b'%'), nested(33, b'~'), nested(2000, b'*'),
        b"*2\r\n$3\r\nGET\r\n$1\r\nk\r\n\r\n\r\n*1\r\n$4\r\nPING\r\n".to_vec(),
    ];
    // declared lengths at the edges of i64 / u64 / usize for every length-prefixed type: alone, followed
    // by a few bytes, and as an argument inside a command array - an answer (error or need-more-data),
    // never an arithmetic overflow on `header + length + 2`
    let mut fixed = fixed;
    let edges: Vec<String> = {
        let mut v: Vec<String> = vec!["9223372036854775806".into(), "9223372036854775807".into(), "9223372036854775808".into(),
            "18446744073709551616".into(), "18446744073709551617".into(), "99999999999999999999".into(), "340282366920938463463374607431768211456".into(),
            "4294967295".into(), "4294967296".into(), "-9223372036854775808".into(), "-9223372036854775809".into(), "-18446744073709551615".into()];
        for k in 0..34u64 { v.push(format!("{}", u64::MAX - k)); }
        v
    };
    for l in &edges {
        for t in [b'$', b'*', b'%', b'~'] {
            let mut h = vec![t]; h.extend_from_slice(l.as_bytes()); h.extend_from_slice(b"\r\n");
            fixed.push(h.clone());
            let mut h2 = h.clone(); h2.extend_from_slice(b"ab\r\n+x\r\n"); fixed.push(h2);
            let mut h3 = b"*2\r\n$4\r\nECHO\r\n".to_vec(); h3.extend_from_slice(&h); fixed.push(h3);
        }
    }
    for d in &fixed {
        let mut cks = vec![]; chunkings(&mut r, d, &mut cks, true);
        let ops = cks.iter().map(|c| parse_op(c)).collect();
        push(ops, "fixed", &mut id);
    }
    let thorough = tier == "thorough";
    // (a) frame trees: serialize, then parse the bytes under chunkings
    for _ in 0..n {
        let wf = r.chance(3, 4);
        let f = gen_frame(&mut r, 0, wf);
        let mut enc = vec![]; enc_frame(&f, &mut enc);
        let mut ops = vec![{ let mut o = vec![b("SER"), i(0)]; o.extend(enc); o }];
        let mut bytes = Vec::new();
        let _ = serialize_resp_frame(&f, &mut bytes);
        // a second frame behind it so "consumes exactly those bytes" is visible
        let g = gen_frame(&mut r, 3, true);
        let _ = serialize_resp_frame(&g, &mut bytes);
        let mut cks = vec![]; chunkings(&mut r, &bytes, &mut cks, bytes.len() <= 24);
        for c in &cks { ops.push(parse_op(c)); }
        push(ops, "tree", &mut id);
    }
    // (b) malformed stream over the protocol alphabet
    let alpha: &[u8] = b"+-:$*_#,%~0123456789\r\nPINGx tf.e";
    for _ in 0..n {
        let len = if r.chance(1, 2) { 1 + r.below(8) } else { 1 + r.below(64) } as usize;
        let mut d: Vec<u8> = Vec::with_capacity(len);
        while d.len() < len {
            match r.below(6) { 0 => d.extend_from_slice(b"\r\n"), 1 => { d.push(*r.pick(b"+-:$*_#,%~")); d.push(*r.pick(b"0123456789-+")); }
                               _ => d.push(*r.pick(alpha)) }
        }
        let mut cks = vec![]; chunkings(&mut r, &d, &mut cks, d.len() <= 12);
        push(cks.iter().map(|c| parse_op(c)).collect(), "mal", &mut id);
    }
    // (c) exhaustive short strings over a reduced alphabet
    let small: &[u8] = b"*$:+1-\r\nP_#t,%~";
    let maxlen = if thorough { 5 } else { 3 };
    let mut cur: Vec<usize> = vec![];
    let mut ops = vec![];
    loop {
        // increment
        let mut k = 0;
        loop {
            if k == cur.len() { cur.push(0); break; }
            cur[k] += 1;
            if cur[k] < small.len() { break; }
            cur[k] = 0; k += 1;
        }
        if cur.len() > maxlen { break; }
        let d: Vec<u8> = cur.iter().map(|x| small[*x]).collect();
        ops.push(parse_op(&[d.clone()]));
        if d.len() >= 2 { ops.push(parse_op(&[d[..1].to_vec(), d[1..].to_vec()])); ops.push(parse_op(&d.iter().map(|c| vec![*c]).collect::<Vec<_>>())); }
        if ops.len() >= 400 { push(std::mem::take(&mut ops), "exh", &mut id); }
    }
    if !ops.is_empty() { push(ops, "exh", &mut id); }
    cases
}

// ---- running the implementation ----
fn dparse_table(chunks: &[Vec<u8>]) -> Vec<Tok> {
    let data: Vec<u8> = chunks.concat();
    let mut seen: Vec<Vec<u8>> = vec![];
    let mut t = vec![];
    for p in 0..data.len() {
        if data[p] != b',' { continue; }
        let rest = &data[p + 1..];
        if let Some(e) = rest.windows(2).position(|w| w == b"\r\n") {
            let line = rest[..e].to_vec();
            if line.len() > 400 || seen.contains(&line) || seen.len() >= 64 { continue; }
            let v: i128 = match std::str::from_utf8(&line).ok().and_then(|s| s.parse::<f64>().ok()) { Some(d) => d.to_bits() as i128, None => -1 };
            t.push(bv(&line)); t.push(Tok::I(v)); seen.push(line);
        }
    }
    let mut out = vec![i(seen.len() as i64)]; out.extend(t); out
}

pub fn run_op(op: &[Tok]) -> (Vec<Tok>, Vec<Tok>) {
    let name = tok_bytes(&op[0]).to_vec();
    if name == b"SER" {
        let k = tok_int(&op[1]) as usize;
        let mut pos = 2 + 2 * k;
        let ftoks_start = pos;
        let f = dec_frame(op, &mut pos);
        let mut ds = vec![]; collect_doubles(&f, &mut ds); ds.sort(); ds.dedup();
        let mut newop = vec![b("SER"), i(ds.len() as i64)];
        for d in &ds { newop.push(Tok::I(*d as i128)); newop.push(bv(f64::from_bits(*d).to_string().as_bytes())); }
        newop.extend_from_slice(&op[ftoks_start..]);
        let mut bytes = Vec::new();
        let ok = serialize_resp_frame(&f, &mut bytes).is_ok();
        (newop, vec![bv(&bytes), i(ok as i64)])
    } else {
        let k = tok_int(&op[1]) as usize;
        let chunks: Vec<Vec<u8>> = op[2 + 2 * k..].iter().map(|t| tok_bytes(t).to_vec()).collect();
        let mut newop = vec![b("PARSE")]; newop.extend(dparse_table(&chunks)); for c in &chunks { newop.push(bv(c)); }
        let total: usize = chunks.iter().map(|c| c.len()).sum();
        let mut frames = vec![]; let mut status = 0;
        crate::alloc::reset();
        let mut p = RespParser::new();
        let mut fed = 0usize; let mut alloc_ok = true;
        for c in &chunks {
            p.feed(c); fed += c.len();
            loop {
                match p.parse() { Ok(Some(f)) => frames.push(f), Ok(None) => { status = 0; break; } Err(_) => { status = 1; break; } }
            }
            // every allocation is bounded by a constant times the bytes in hand
            if crate::alloc::max_req() > 128 * fed + 8192 { alloc_ok = false; }
        }
        let _ = total;
        let mut out = vec![i(status), i(alloc_ok as i64)];
        for f in &frames { enc_frame(f, &mut out); }
        (newop, out)
    }
}

pub fn run(c: &Case) -> Case {
    let mut r = Case { id: c.id.clone(), ops: vec![], outs: vec![] };
    for op in &c.ops {
        let op = &op.clone();
        let res = std::panic::catch_unwind(|| run_op(op));
        match res { Ok((o, out)) => { r.ops.push(o); r.outs.push(out); } Err(_) => { r.ops.push(op.clone()); r.outs.push(vec![b("PANIC")]); } }
    }
    r
}

// ---- property oracle on the implementation's outputs (independent of the model) ----
fn frame_wf(f: &RespFrame) -> bool {
    let nocrlf = |b: &Vec<u8>| !b.iter().any(|c| *c == b'\r' || *c == b'\n');
    match f {
        RespFrame::SimpleString(b) | RespFrame::Error(b) => nocrlf(b),
        RespFrame::NoResponse => false,
        RespFrame::Double(d) => !d.is_nan(),
        RespFrame::Array(Some(l)) | RespFrame::Set(l) => l.iter().all(frame_wf),
        RespFrame::Map(l) => l.iter().all(|(k, v)| frame_wf(k) && frame_wf(v)),
        _ => true,
    }
}

pub fn judge(c: &Case, outs: &[Vec<Tok>]) -> Vec<String> {
    let mut fails = vec![];
    let mut by_data: std::collections::HashMap<Vec<u8>, (usize, Vec<Tok>)> = Default::default();
    let mut last_ser: Option<(Vec<Tok>, Vec<u8>)> = None;
    for (k, (op, out)) in c.ops.iter().zip(outs.iter()).enumerate() {
        if out.first() == Some(&b("PANIC")) { fails.push(format!("FAIL case={} op={} panic", c.id, k)); continue; }
        let name = tok_bytes(&op[0]);
        if name == b"SER" {
            let kk = tok_int(&op[1]) as usize;
            let mut pos = 2 + 2 * kk; let start = pos;
            let f = dec_frame(op, &mut pos);
            if frame_wf(&f) {
                if tok_int(&out[1]) != 1 { fails.push(format!("FAIL case={} op={} serializer refused a well-formed frame", c.id, k)); }
                last_ser = Some((op[start..pos].to_vec(), tok_bytes(&out[0]).to_vec()));
            } else { last_ser = None; }
        } else {
            let kk = tok_int(&op[1]) as usize;
            let data: Vec<u8> = op[2 + 2 * kk..].iter().flat_map(|t| tok_bytes(t).to_vec()).collect();
            if tok_int(&out[1]) != 1 { fails.push(format!("FAIL case={} op={} allocation not bounded by received bytes", c.id, k)); }
            if let Some((k0, o0)) = by_data.get(&data) {
                if o0 != out { fails.push(format!("FAIL case={} op={} chunking dependence (differs from op {})", c.id, k, k0)); }
            } else { by_data.insert(data.clone(), (k, out.clone())); }
            if let Some((enc, bytes)) = &last_ser {
                if data.starts_with(bytes) {
                    let got = &out[2..];
                    if got.len() < enc.len() || &got[..enc.len()] != &enc[..] || tok_int(&out[0]) != 0 {
                        fails.push(format!("FAIL case={} op={} round-trip: parse(serialize f) is not f", c.id, k));
                    }
                }
            }
        }
    }
    fails
}
