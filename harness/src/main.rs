//! verif-harness: generates cases and runs them on the implementation.
//!   harness gen <PROP> --seed S --n N --tier quick|thorough   > cases
//!   harness run <PROP> < cases                                > cases with OUT lines
mod alloc; mod rng; mod tok; mod resp; mod srv; mod c20; mod c01; mod c09; mod c10;
use std::io::{self, BufWriter, Write};

#[global_allocator]
static A: alloc::Counting = alloc::Counting;

fn arg(args: &[String], name: &str, def: &str) -> String {
    args.iter().position(|a| a == name).and_then(|p| args.get(p + 1)).cloned().unwrap_or(def.to_string())
}

fn main() {
    let args: Vec<String> = std::env::args().collect();
    if args.len() >= 2 && args[1] == "serve" { srv::serve(&args); return; }
    if args.len() < 3 { eprintln!("usage: harness gen|run PROP [--seed S] [--n N] [--tier T]"); std::process::exit(2); }
    let (mode, prop) = (args[1].as_str(), args[2].as_str());
    let seed: u64 = arg(&args, "--seed", "1").parse().unwrap_or(1);
    let n: usize = arg(&args, "--n", "100").parse().unwrap_or(100);
    let tier = arg(&args, "--tier", "quick");
    std::panic::set_hook(Box::new(|_| {}));
    // rdb.rs prints with println!: C09/C10 write the case stream to a duplicate of fd 1
    let mut w: Box<dyn Write> = if prop == "C09" || prop == "C10" { Box::new(BufWriter::new(c09::quiet_stdout())) }
        else { Box::new(BufWriter::new(io::stdout())) };
    match mode {
        "gen" => {
            let cases = match prop { "C20" => c20::gen(seed, n, &tier), "C01" => c01::gen(seed, n, &tier), "C09" => c09::gen(seed, n, &tier), "C10" => c10::gen(seed, n, &tier), _ => { eprintln!("no generator for {}", prop); std::process::exit(2) } };
            for c in &cases { tok::write_case(&mut w, c); }
        }
        "run" => {
            let cases = tok::read_cases(io::stdin().lock());
            for c in &cases {
                let r = match prop { "C20" => c20::run(c), "C01" => c01::run(c), "C09" => c09::run(c), "C10" => c10::run(c), _ => { eprintln!("no runner for {}", prop); std::process::exit(2) } };
                tok::write_case(&mut w, &r);
            }
        }
        "judge" => {
            let cases = tok::read_cases(io::stdin().lock());
            for c in &cases {
                let fails = match prop { "C20" => c20::judge(c, &c.outs), "C09" => c09::judge(c, &c.outs), "C10" => c10::judge(c, &c.outs), _ => vec![] };
                for f in fails { writeln!(w, "{}", f).unwrap(); }
            }
        }
        _ => { eprintln!("bad mode"); std::process::exit(2); }
    }
    w.flush().unwrap();
}
