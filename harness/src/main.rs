//! verif-harness: generates cases and runs them on the implementation.
//!   harness gen <PROP> --seed S --n N --tier quick|thorough   > cases
//!   harness run <PROP> < cases                                > cases with OUT lines
//!   harness judge <PROP> < cases with OUT lines               > FAIL lines (property oracle)
//!   harness serve --port P --dir D [--pass PW] [--aof]        (the server under test, child process)
mod alloc; mod rng; mod tok; mod resp; mod srv;
mod c01;
mod c02;
mod c03;
mod c04;
mod c05;
mod c06;
mod c07;
mod c08;
mod c11;
mod c09;
mod c10;
mod c12;
mod c13;
mod c14;
mod c15;
mod c16;
mod c17;
mod c18;
mod c19;
mod c20;
use std::io::{self, BufWriter, Write};
use tok::Case;

#[global_allocator]
static A: alloc::Counting = alloc::Counting;

fn arg(args: &[String], name: &str, def: &str) -> String {
    args.iter().position(|a| a == name).and_then(|p| args.get(p + 1)).cloned().unwrap_or(def.to_string())
}

// one line per property: keep sorted
fn gen(prop: &str, seed: u64, n: usize, tier: &str) -> Option<Vec<Case>> {
    Some(match prop {
        "C01" => c01::gen(seed, n, tier),
        "C02" => c02::gen(seed, n, tier),
        "C03" => c03::gen(seed, n, tier),
        "C04" => c04::gen(seed, n, tier),
        "C05" => c05::gen(seed, n, tier),
        "C06" => c06::gen(seed, n, tier),
        "C07" => c07::gen(seed, n, tier),
        "C08" => c08::gen(seed, n, tier),
        "C11" => c11::gen(seed, n, tier),
        "C09" => c09::gen(seed, n, tier),
        "C10" => c10::gen(seed, n, tier),
        "C12" => c12::gen(seed, n, tier),
        "C13" => c13::gen(seed, n, tier),
        "C14" => c14::gen(seed, n, tier),
        "C15" => c15::gen(seed, n, tier),
        "C16" => c16::gen(seed, n, tier),
        "C17" => c17::gen(seed, n, tier),
        "C18" => c18::gen(seed, n, tier),
        "C19" => c19::gen(seed, n, tier),
        "C20" => c20::gen(seed, n, tier),
        _ => return None,
    })
}
fn run(prop: &str, c: &Case) -> Option<Case> {
    Some(match prop {
        "C01" => c01::run(c),
        "C02" => c02::run(c),
        "C03" => c03::run(c),
        "C04" => c04::run(c),
        "C05" => c05::run(c),
        "C06" => c06::run(c),
        "C07" => c07::run(c),
        "C08" => c08::run(c),
        "C11" => c11::run(c),
        "C09" => c09::run(c),
        "C10" => c10::run(c),
        "C12" => c12::run(c),
        "C13" => c13::run(c),
        "C14" => c14::run(c),
        "C15" => c15::run(c),
        "C16" => c16::run(c),
        "C17" => c17::run(c),
        "C18" => c18::run(c),
        "C19" => c19::run(c),
        "C20" => c20::run(c),
        _ => return None,
    })
}
fn judge(prop: &str, c: &Case) -> Vec<String> {
    match prop {
        "C02" => c02::judge(c, &c.outs),
        "C03" => c03::judge(c, &c.outs),
        "C04" => c04::judge(c, &c.outs),
        "C06" => c06::judge(c, &c.outs),
        "C11" => c11::judge(c, &c.outs),
        "C09" => c09::judge(c, &c.outs),
        "C10" => c10::judge(c, &c.outs),
        "C12" => c12::judge(c, &c.outs),
        "C13" => c13::judge(c, &c.outs),
        "C14" => c14::judge(c, &c.outs),
        "C15" => c15::judge(c, &c.outs),
        "C16" => c16::judge(c, &c.outs),
        "C19" => c19::judge(c, &c.outs),
        "C20" => c20::judge(c, &c.outs),
        _ => vec![],
    }
}

fn main() {
    let args: Vec<String> = std::env::args().collect();
    if args.len() >= 2 && args[1] == "serve" { srv::serve(&args); return; }
    if args.len() < 3 { eprintln!("usage: harness gen|run|judge PROP [--seed S] [--n N] [--tier T]"); std::process::exit(2); }
    let (mode, prop) = (args[1].as_str(), args[2].as_str());
    let seed: u64 = arg(&args, "--seed", "1").parse().unwrap_or(1);
    let n: usize = arg(&args, "--n", "100").parse().unwrap_or(100);
    let tier = arg(&args, "--tier", "quick");
    std::panic::set_hook(Box::new(|_| {}));
    // rdb.rs prints with println!: C09/C10 write the case stream to a duplicate of fd 1
    let mut w: Box<dyn Write> = if prop == "C09" || prop == "C10" { Box::new(BufWriter::new(c09::quiet_stdout())) }
        else { Box::new(BufWriter::new(io::stdout())) };
    match mode {
        "gen" => {
            let cases = gen(prop, seed, n, &tier).unwrap_or_else(|| { eprintln!("no generator for {}", prop); std::process::exit(2) });
            for c in &cases { tok::write_case(&mut w, c); }
        }
        "run" => {
            let cases = tok::read_cases(io::stdin().lock());
            for c in &cases {
                let r = run(prop, c).unwrap_or_else(|| { eprintln!("no runner for {}", prop); std::process::exit(2) });
                tok::write_case(&mut w, &r);
            }
        }
        "judge" => {
            let cases = tok::read_cases(io::stdin().lock());
            for c in &cases { for f in judge(prop, c) { writeln!(w, "{}", f).unwrap(); } }
        }
        "tally" => {   // developer aid: command x outcome-class tally of run cases
            let cases = tok::read_cases(io::stdin().lock());
            let lines = match prop { "C04" => c04::tally(&cases), _ => vec![] };
            for l in lines { writeln!(w, "{}", l).unwrap(); }
        }
        _ => { eprintln!("bad mode"); std::process::exit(2); }
    }
    w.flush().unwrap();
}
