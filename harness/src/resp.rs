//! Independent RESP reader/writer used by the TCP harness (does not use ferrous's codec).
use crate::tok::*;
use std::io::{Read, Write};
use std::net::TcpStream;
use std::time::{Duration, Instant};

#[derive(Clone, Debug, PartialEq)]
pub enum V {
    Simple(Vec<u8>), Error(Vec<u8>), Int(i64), Bulk(Vec<u8>), NullBulk, Array(Vec<V>), NullArray,
    Null, Bool(bool), Double(f64), Map(Vec<V>), Set(Vec<V>),
}

impl V {
    pub fn enc(&self, out: &mut Vec<Tok>) {
        match self {
            V::Simple(b) => { out.push(i(0)); out.push(bv(b)); }
            V::Error(b) => { out.push(i(1)); out.push(bv(b)); }
            V::Int(n) => { out.push(i(2)); out.push(i(*n)); }
            V::Bulk(b) => { out.push(i(3)); out.push(bv(b)); }
            V::NullBulk => out.push(i(4)),
            V::Array(l) => { out.push(i(5)); out.push(i(l.len() as i64)); for x in l { x.enc(out); } }
            V::NullArray => out.push(i(6)),
            V::Null => out.push(i(8)),
            V::Bool(x) => { out.push(i(9)); out.push(i(*x as i64)); }
            V::Double(d) => { out.push(i(10)); out.push(Tok::I(d.to_bits() as i128)); }
            V::Map(l) => { out.push(i(11)); out.push(i(l.len() as i64)); for x in l { x.enc(out); } }
            V::Set(l) => { out.push(i(12)); out.push(i(l.len() as i64)); for x in l { x.enc(out); } }
        }
    }
    pub fn dec(t: &[Tok], pos: &mut usize) -> Option<V> {
        if *pos >= t.len() { return None; }
        let tag = match &t[*pos] { Tok::I(z) => *z, _ => return None }; *pos += 1;
        let list = |pos: &mut usize| -> Option<Vec<V>> {
            let n = tok_int(t.get(*pos)?); *pos += 1;
            let mut v = vec![]; for _ in 0..n { v.push(V::dec(t, pos)?); } Some(v)
        };
        Some(match tag {
            0 => { let r = V::Simple(tok_bytes(t.get(*pos)?).to_vec()); *pos += 1; r }
            1 => { let r = V::Error(tok_bytes(t.get(*pos)?).to_vec()); *pos += 1; r }
            2 => { let r = V::Int(tok_int(t.get(*pos)?) as i64); *pos += 1; r }
            3 => { let r = V::Bulk(tok_bytes(t.get(*pos)?).to_vec()); *pos += 1; r }
            4 => V::NullBulk, 5 => V::Array(list(pos)?), 6 => V::NullArray, 8 => V::Null,
            9 => { let r = V::Bool(tok_int(t.get(*pos)?) != 0); *pos += 1; r }
            10 => { let r = V::Double(f64::from_bits(tok_int(t.get(*pos)?) as u64)); *pos += 1; r }
            11 => V::Map(list(pos)?), 12 => V::Set(list(pos)?),
            _ => return None,
        })
    }
    /// wire bytes of a request/value
    pub fn wire(&self, out: &mut Vec<u8>) {
        match self {
            V::Simple(b) => { out.push(b'+'); out.extend(b); out.extend(b"\r\n"); }
            V::Error(b) => { out.push(b'-'); out.extend(b); out.extend(b"\r\n"); }
            V::Int(n) => { out.extend(format!(":{}\r\n", n).as_bytes()); }
            V::Bulk(b) => { out.extend(format!("${}\r\n", b.len()).as_bytes()); out.extend(b); out.extend(b"\r\n"); }
            V::NullBulk => out.extend(b"$-1\r\n"),
            V::Array(l) => { out.extend(format!("*{}\r\n", l.len()).as_bytes()); for x in l { x.wire(out); } }
            V::NullArray => out.extend(b"*-1\r\n"),
            V::Null => out.extend(b"_\r\n"),
            V::Bool(x) => out.extend(if *x { b"#t\r\n" } else { b"#f\r\n" }),
            V::Double(d) => { out.extend(format!(",{}\r\n", d).as_bytes()); }
            V::Map(l) => { out.extend(format!("%{}\r\n", l.len() / 2).as_bytes()); for x in l { x.wire(out); } }
            V::Set(l) => { out.extend(format!("~{}\r\n", l.len()).as_bytes()); for x in l { x.wire(out); } }
        }
    }
    pub fn cmd(args: &[&[u8]]) -> V { V::Array(args.iter().map(|a| V::Bulk(a.to_vec())).collect()) }
}

pub enum Rd { Val(V), Timeout, Closed, Bad }

pub struct Client { pub s: TcpStream, buf: Vec<u8> }

impl Client {
    pub fn connect(port: u16) -> Option<Client> {
        let s = TcpStream::connect(("127.0.0.1", port)).ok()?;
        s.set_nodelay(true).ok();
        Some(Client { s, buf: vec![] })
    }
    pub fn send(&mut self, bytes: &[u8]) -> bool { self.s.write_all(bytes).is_ok() }
    pub fn parse(buf: &[u8], pos: &mut usize) -> Option<Result<V, ()>> {
        // None = incomplete
        if *pos >= buf.len() { return None; }
        let t = buf[*pos];
        let line_end = buf[*pos..].windows(2).position(|w| w == b"\r\n").map(|e| *pos + e)?;
        let line = &buf[*pos + 1..line_end];
        let after = line_end + 2;
        let num = |l: &[u8]| std::str::from_utf8(l).ok().and_then(|s| s.parse::<i64>().ok());
        match t {
            b'+' => { *pos = after; Some(Ok(V::Simple(line.to_vec()))) }
            b'-' => { *pos = after; Some(Ok(V::Error(line.to_vec()))) }
            b':' => { *pos = after; Some(num(line).map(V::Int).ok_or(())) }
            b'_' => { *pos = after; Some(Ok(V::Null)) }
            b'#' => { *pos = after; Some(Ok(V::Bool(line == b"t"))) }
            b',' => { *pos = after; Some(std::str::from_utf8(line).ok().and_then(|s| s.parse::<f64>().ok()).map(V::Double).ok_or(())) }
            b'$' => {
                let n = match num(line) { Some(n) => n, None => return Some(Err(())) };
                if n < 0 { *pos = after; return Some(Ok(V::NullBulk)); }
                let n = n as usize;
                if buf.len() < after + n + 2 { return None; }
                let v = buf[after..after + n].to_vec();
                *pos = after + n + 2; Some(Ok(V::Bulk(v)))
            }
            b'*' | b'~' | b'%' => {
                let n = match num(line) { Some(n) => n, None => return Some(Err(())) };
                if n < 0 { *pos = after; return Some(Ok(V::NullArray)); }
                let cnt = if t == b'%' { 2 * n } else { n };
                let mut p = after; let mut l = vec![];
                for _ in 0..cnt { match Client::parse(buf, &mut p)? { Ok(v) => l.push(v), Err(_) => return Some(Err(())) } }
                *pos = p;
                Some(Ok(match t { b'*' => V::Array(l), b'~' => V::Set(l), _ => V::Map(l) }))
            }
            _ => Some(Err(())),
        }
    }
    /// read exactly one reply, waiting at most `ms`
    pub fn read(&mut self, ms: u64) -> Rd {
        let deadline = Instant::now() + Duration::from_millis(ms);
        loop {
            let mut pos = 0;
            match Client::parse(&self.buf, &mut pos) {
                Some(Ok(v)) => { self.buf.drain(..pos); return Rd::Val(v); }
                Some(Err(_)) => return Rd::Bad,
                None => {}
            }
            let now = Instant::now();
            if now >= deadline { return Rd::Timeout; }
            self.s.set_read_timeout(Some((deadline - now).max(Duration::from_millis(1)))).ok();
            let mut tmp = [0u8; 65536];
            match self.s.read(&mut tmp) {
                Ok(0) => return Rd::Closed,
                Ok(n) => self.buf.extend_from_slice(&tmp[..n]),
                Err(e) if e.kind() == std::io::ErrorKind::WouldBlock || e.kind() == std::io::ErrorKind::TimedOut => return Rd::Timeout,
                Err(_) => return Rd::Closed,
            }
        }
    }
    /// every complete frame that has already arrived (no waiting): (frames, end of stream seen, undecodable bytes)
    pub fn poll(&mut self) -> (Vec<V>, bool, bool) {
        let mut eof = false;
        self.s.set_nonblocking(true).ok();
        let mut tmp = [0u8; 65536];
        loop {
            match self.s.read(&mut tmp) {
                Ok(0) => { eof = true; break; }
                Ok(n) => self.buf.extend_from_slice(&tmp[..n]),
                Err(e) if e.kind() == std::io::ErrorKind::Interrupted => continue,
                Err(e) if e.kind() == std::io::ErrorKind::WouldBlock => break,
                Err(_) => { eof = true; break; }
            }
        }
        self.s.set_nonblocking(false).ok();
        let mut frames = vec![]; let mut bad = false;
        loop {
            let mut pos = 0;
            match Client::parse(&self.buf, &mut pos) {
                Some(Ok(v)) => { self.buf.drain(..pos); frames.push(v); }
                Some(Err(_)) => { bad = true; break; }
                None => break,
            }
        }
        (frames, eof, bad)
    }
    /// raw bytes currently available within `ms` (for unsolicited-output checks)
    pub fn drain_raw(&mut self, ms: u64) -> Vec<u8> {
        self.s.set_read_timeout(Some(Duration::from_millis(ms.max(1)))).ok();
        let mut tmp = [0u8; 65536];
        if let Ok(n) = self.s.read(&mut tmp) { self.buf.extend_from_slice(&tmp[..n]); }
        std::mem::take(&mut self.buf)
    }
}
