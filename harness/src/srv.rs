//! Live-server driver: the real Server::run loop in a child process of this
//! binary (`verif-harness serve ...`), histories of CONN/CMD/SLEEP/CLOSE ops.
use crate::resp::*;
use crate::tok::*;
use std::collections::HashMap;
use std::process::{Child, Command, Stdio};
use std::time::{Duration, Instant};

pub struct Srv { pub child: Child, pub port: u16, pub dir: std::path::PathBuf }

pub struct SrvOpts { pub password: Option<String>, pub aof: bool, pub dir: Option<std::path::PathBuf>, pub keep_dir: bool }
impl Default for SrvOpts { fn default() -> Self { SrvOpts { password: None, aof: false, dir: None, keep_dir: false } } }

/// A port that is free right now, taken from BELOW the kernel's ephemeral range (32768..): a port
/// released here is then never handed to another process's bind(0) or outgoing connection, so servers
/// of concurrently running checks cannot end up sharing a port (a lost race among this harness's own
/// shards is caught by the child's failing bind, see the ready file in Srv::start).
fn free_port() -> u16 {
    static N: std::sync::atomic::AtomicU64 = std::sync::atomic::AtomicU64::new(0);
    let t = std::time::SystemTime::now().duration_since(std::time::UNIX_EPOCH).map(|d| d.as_nanos() as u64).unwrap_or(0);
    let mut x = t ^ ((std::process::id() as u64) << 32) ^ N.fetch_add(1, std::sync::atomic::Ordering::SeqCst).wrapping_mul(0x9E3779B97F4A7C15);
    for _ in 0..10000 {
        x = x.wrapping_add(0x9E3779B97F4A7C15);
        let mut z = x; z = (z ^ (z >> 30)).wrapping_mul(0xBF58476D1CE4E5B9); z = (z ^ (z >> 27)).wrapping_mul(0x94D049BB133111EB); z ^= z >> 31;
        let port = 10000 + (z % 22000) as u16;
        if std::net::TcpListener::bind(("127.0.0.1", port)).is_ok() { return port; }
    }
    let l = std::net::TcpListener::bind("127.0.0.1:0").unwrap();
    l.local_addr().unwrap().port()
}

static COUNTER: std::sync::atomic::AtomicU64 = std::sync::atomic::AtomicU64::new(0);

impl Srv {
    pub fn start(o: &SrvOpts) -> Srv {
        for _attempt in 0..5 { if let Some(s) = Srv::try_start(o) { return s; } }
        panic!("could not start server");
    }
    /// one attempt; None = lost a port race, the child exited during start-up, or it did not come up in 8 s
    pub fn try_start(o: &SrvOpts) -> Option<Srv> {
        {
            let port = free_port();
            let dir = o.dir.clone().unwrap_or_else(|| {
                let base = std::env::var("VERIF_SCRATCH").unwrap_or("/verif/build/scratch".to_string());
                let d = std::path::PathBuf::from(base).join(format!("s{}_{}", std::process::id(), COUNTER.fetch_add(1, std::sync::atomic::Ordering::SeqCst)));
                d
            });
            std::fs::create_dir_all(&dir).unwrap();
            let exe = std::env::current_exe().unwrap();
            let mut c = Command::new(exe);
            c.arg("serve").arg("--port").arg(port.to_string()).arg("--dir").arg(&dir);
            if let Some(p) = &o.password { c.arg("--pass").arg(p); }
            if o.aof { c.arg("--aof"); }
            c.current_dir(&dir).stdin(Stdio::null()).stdout(Stdio::null()).stderr(Stdio::null());
            // the child creates <dir>/.ready once ITS listener is bound: a successful connect alone could
            // reach the server of a parallel harness process that was handed the same "free" port
            let ready = dir.join(".ready");
            let _ = std::fs::remove_file(&ready);
            let mut child = c.spawn().expect("spawn server");
            let t0 = Instant::now();
            loop {
                if let Ok(Some(_)) = child.try_wait() { break; }
                if ready.exists() && std::net::TcpStream::connect(("127.0.0.1", port)).is_ok() {
                    // port race between harness processes: make sure it is OUR child that listens
                    // (the VERIF PID hook answers the server's process id)
                    let mut mine = false;
                    if let Some(mut cl) = Client::connect(port) {
                        let mut w = vec![];
                        if let Some(p) = &o.password { V::cmd(&[b"AUTH", p.as_bytes()]).wire(&mut w); cl.send(&w); let _ = cl.read(3000); w.clear(); }
                        V::cmd(&[b"VERIF", b"PID"]).wire(&mut w); cl.send(&w);
                        if let Rd::Val(V::Int(pid)) = cl.read(3000) { mine = pid as u32 == child.id(); }
                    }
                    if mine { return Some(Srv { child, port, dir }); }
                    let _ = child.kill(); let _ = child.wait(); if o.dir.is_none() { let _ = std::fs::remove_dir_all(&dir); }
                    break;
                }
                if t0.elapsed() > Duration::from_secs(8) { let _ = child.kill(); let _ = child.wait(); break; }
                std::thread::sleep(Duration::from_millis(5));
            }
        }
        None
    }
    pub fn alive(&mut self) -> bool { matches!(self.child.try_wait(), Ok(None)) }
    pub fn stop(mut self, keep_dir: bool) {
        let _ = self.child.kill(); let _ = self.child.wait();
        if !keep_dir { let _ = std::fs::remove_dir_all(&self.dir); }
    }
}

/// serve mode: run the real server in this process
pub fn serve(args: &[String]) {
    let get = |n: &str| args.iter().position(|a| a == n).and_then(|p| args.get(p + 1)).cloned();
    let mut cfg = ferrous::Config::default();
    cfg.network.port = get("--port").unwrap().parse().unwrap();
    cfg.network.bind_addr = "127.0.0.1".to_string();
    cfg.network.password = get("--pass");
    let dir = get("--dir").unwrap();
    cfg.rdb.dir = dir.clone();
    if args.iter().any(|a| a == "--aof") { cfg.aof.enabled = true; cfg.aof.dir = dir.clone(); }
    let _ = std::panic::take_hook();
    match ferrous::Server::from_config(cfg) {
        Ok(mut s) => {
            let _ = std::fs::write(std::path::Path::new(&dir).join(".ready"), b"1");
            let r = s.run(); eprintln!("server ended: {:?}", r.is_ok());
        }
        Err(e) => { eprintln!("server failed to start: {}", e); std::process::exit(3); }
    }
}

/// canonical form shared with Model/Server.v [canon_reply]
fn first_word(b: &[u8]) -> Vec<u8> { b.iter().take_while(|c| **c != b' ').cloned().collect() }
pub fn canon(v: V) -> V {
    match v {
        V::Error(b) => V::Error(first_word(&b)),
        V::Array(l) => V::Array(l.into_iter().map(canon).collect()),
        V::Map(l) => V::Map(l.into_iter().map(canon).collect()),
        V::Set(l) => V::Set(l.into_iter().map(canon).collect()),
        x => x,
    }
}
fn sort_bulks(l: &mut Vec<V>) {
    l.sort_by(|a, b| match (a, b) { (V::Bulk(x), V::Bulk(y)) => x.cmp(y), _ => std::cmp::Ordering::Equal });
}
pub fn canon_reply(name: &[u8], v: V) -> V {
    let v = canon(v);
    match name {
        b"TTL" | b"PTTL" => match v { V::Int(n) if n > 0 => V::Int(1), x => x },
        b"VERIF" => match v {
            // INDEX rows: remaining times by sign only
            V::Array(rows) => V::Array(rows.into_iter().map(|r| match r {
                V::Array(mut f) if f.len() == 4 => { for k in 1..3 { if let V::Int(n) = f[k] { if n > 0 { f[k] = V::Int(1); } } } V::Array(f) }
                x => x }).collect()),
            x => x },
        b"SMEMBERS" | b"SUNION" | b"SINTER" | b"SDIFF" | b"KEYS" | b"HKEYS" | b"HVALS" | b"SPOP" | b"SRANDMEMBER" =>
            match v { V::Array(mut l) => { if l.iter().all(|x| matches!(x, V::Bulk(_))) { sort_bulks(&mut l); } V::Array(l) } x => x },
        b"HGETALL" => match v {
            V::Array(l) if l.len() % 2 == 0 && l.iter().all(|x| matches!(x, V::Bulk(_))) => {
                let mut pairs: Vec<(V, V)> = l.chunks(2).map(|c| (c[0].clone(), c[1].clone())).collect();
                pairs.sort_by(|a, b| match (&a.0, &b.0) { (V::Bulk(x), V::Bulk(y)) => x.cmp(y), _ => std::cmp::Ordering::Equal });
                V::Array(pairs.into_iter().flat_map(|(k, v)| vec![k, v]).collect())
            }
            x => x },
        // SSCAN fast path iterates the HashSet: sort the members (the slow path is sorted already)
        b"SSCAN" => match v {
            V::Array(mut l) if l.len() == 2 => { if let V::Array(m) = &mut l[1] { if m.iter().all(|x| matches!(x, V::Bulk(_))) { sort_bulks(m); } } V::Array(l) }
            x => x },
        _ => crate::c15::canon_streams(name, v),
    }
}
/// canonical order of pushed frames (= Model/RunSrv.v canon_pushes): each maximal run of consecutive
/// pmessage frames with the same channel and payload is sorted by pattern (HashMap order of the
/// pattern map is unobservable)
pub fn canon_pushes(mut l: Vec<V>) -> Vec<V> {
    fn key(v: &V) -> Option<(Vec<u8>, Vec<u8>, Vec<u8>)> {
        if let V::Array(a) = v { if a.len() == 4 { if let (V::Bulk(k), V::Bulk(p), V::Bulk(ch), V::Bulk(m)) = (&a[0], &a[1], &a[2], &a[3]) {
            if k == b"pmessage" { return Some((p.clone(), ch.clone(), m.clone())); } } } }
        None
    }
    let mut i = 0;
    while i < l.len() {
        if let Some((_, ch, m)) = key(&l[i]) {
            let mut j = i + 1;
            while j < l.len() { match key(&l[j]) { Some((_, ch2, m2)) if ch2 == ch && m2 == m => j += 1, _ => break } }
            l[i..j].sort_by(|a, b| key(a).unwrap().0.cmp(&key(b).unwrap().0));
            i = j;
        } else { i += 1; }
    }
    l
}
/// (P)UNSUBSCRIBE without arguments confirms the connection's names in HashSet order: sort the names
/// of the consecutive confirmation frames of that kind, the counts stay by position
fn canon_unsub_all(kind: &[u8], l: &mut Vec<V>) {
    let is = |v: &V| matches!(v, V::Array(a) if a.len() == 3 && matches!(&a[0], V::Bulk(k) if k == kind) && matches!(&a[1], V::Bulk(_)));
    let mut i = 0;
    while i < l.len() {
        if is(&l[i]) {
            let mut j = i; while j < l.len() && is(&l[j]) { j += 1; }
            let mut names: Vec<Vec<u8>> = l[i..j].iter().map(|v| if let V::Array(a) = v { if let V::Bulk(n) = &a[1] { n.clone() } else { vec![] } } else { vec![] }).collect();
            names.sort();
            for (k, n) in names.into_iter().enumerate() { if let V::Array(a) = &mut l[i + k] { a[1] = V::Bulk(n); } }
            i = j;
        } else { i += 1; }
    }
}
pub fn req_name(req: &V) -> Vec<u8> {
    match req { V::Array(l) => match l.first() { Some(V::Bulk(b)) => b.to_ascii_uppercase(), _ => vec![] }, _ => vec![] }
}
const RANDOM_CMDS: &[&[u8]] = &[b"RANDOMKEY", b"SPOP", b"SRANDMEMBER", b"XADD", b"SCRIPT"];

/// bookkeeping of the blocking-pop ops (BCONN/BSEND/BRECV/BCLOSE): server-side connection ids,
/// requests written minus frames received per connection, frames received but not yet reported
#[derive(Default)]
pub struct Blk { pub ids: HashMap<i64, i128>, pub owed: HashMap<i128, i64>, pub inbox: HashMap<i128, Vec<V>>, pub eof: std::collections::HashSet<i128>, pub broken: std::collections::HashSet<i128>, pub drift: bool, pub finite: HashMap<i128, bool>, pub ctl_dead: bool }

pub struct Runner { pub srv: Srv, pub conns: HashMap<i128, Client>, pub t0: Instant, pub logical: i128, pub drift_bad: bool, pub queues: HashMap<i128, Vec<Vec<u8>>>, pub password: Option<String>, pub ctl_authed: bool, pub blk: Blk, pub quit_sent: std::collections::HashSet<i128> }

impl Runner {
    pub fn new(o: &SrvOpts) -> Runner { Runner { srv: Srv::start(o), conns: HashMap::new(), t0: Instant::now(), logical: 0, drift_bad: false, queues: HashMap::new(), password: o.password.clone(), ctl_authed: false, blk: Blk::default(), quit_sent: Default::default() } }
    /// one op; returns (possibly augmented op, output)
    pub fn op(&mut self, op: &[Tok]) -> (Vec<Tok>, Vec<Tok>) {
        let name = tok_bytes(&op[0]).to_vec();
        match &name[..] {
            b"CONN" => { let c = tok_int(&op[1]); match Client::connect(self.srv.port) { Some(cl) => { self.conns.insert(c, cl); (op.to_vec(), vec![i(1)]) } None => (op.to_vec(), vec![i(0)]) } }
            b"CLOSE" => { let c = tok_int(&op[1]); self.conns.remove(&c); std::thread::sleep(Duration::from_millis(15)); (op.to_vec(), vec![]) }
            b"NOTE" => (op.to_vec(), vec![]),      // annotation for the judge (C12 twin pairs); no effect
            b"SLEEP" => {
                self.logical += tok_int(&op[1]);
                let target = Duration::from_millis(self.logical as u64);
                let el = self.t0.elapsed();
                if el < target { std::thread::sleep(target - el); }
                (op.to_vec(), vec![])
            }
            b"CMD" => {
                let c = tok_int(&op[1]);
                let mut pos = 3;
                let req = match V::dec(op, &mut pos) { Some(r) => r, None => return (op.to_vec(), vec![b("BADFRAME")]) };
                // drift check: real time must stay within 80 ms of the logical clock
                let el = self.t0.elapsed().as_millis() as i128;
                if el - self.logical > 80 { self.drift_bad = true; }
                if !self.blk.owed.is_empty() { self.sync_clock(); }
                let mut wire = vec![]; req.wire(&mut wire);
                let nm = req_name(&req);
                let cl = match self.conns.get_mut(&c) { Some(x) => x, None => return (op.to_vec(), vec![b("CLOSED")]) };
                if !cl.send(&wire) { return (op[..pos].to_vec(), vec![b("CLOSED")]); }
                let mut newop = op[..pos].to_vec();
                newop[2] = Tok::I(self.logical);
                match cl.read(8000) {
                    Rd::Val(v) => {
                        if RANDOM_CMDS.contains(&&nm[..]) || nm == b"ZSCAN" { v.enc(&mut newop); }
                        // EVAL adds its script to the cache: the digest of the source is the model's oracle
                        // (computed by the harness's own SHA-1, checked by the model for consistency)
                        if nm == b"EVAL" { if let V::Array(l) = &req { if let Some(V::Bulk(src)) = l.get(1) { V::Bulk(crate::c12::sha1_hex(src)).enc(&mut newop); } } }
                        // replies inside an EXEC array are canonicalised by the queued command's name
                        let v = if nm == b"EXEC" {
                            let q = self.queues.remove(&c).unwrap_or_default();
                            match v { V::Array(l) if l.len() == q.len() => V::Array(l.into_iter().zip(q.iter()).map(|(x, n)| canon_reply(n, x)).collect()), x => x }
                        } else {
                            if matches!(&v, V::Simple(s) if s == b"QUEUED") { self.queues.entry(c).or_default().push(nm.clone()); }
                            if (nm == b"MULTI" || nm == b"DISCARD") && !matches!(&v, V::Error(_)) { self.queues.remove(&c); }   // a refused nested MULTI keeps the queue
                            v
                        };
                        // blocking-pop histories: let the event loop finish what this command caused (wake-ups, reads
                        // of connections it unblocked) before the next operation is written
                        if !self.blk.owed.is_empty() { let _ = self.settle(); self.drain_all(); self.drift_check(); }
                        let mut out = vec![]; canon_reply(&nm, v).enc(&mut out); (newop, out)
                    }
                    Rd::Timeout => (newop, vec![b("TIMEOUT")]),
                    Rd::Closed => (newop, vec![b("CLOSED")]),
                    Rd::Bad => (newop, vec![b("BADREPLY")]),
                }
            }
            b"SWEEP" | b"SWEEP_GATE" | b"SWEEP_RELEASE" => {
                // sweeper schedule control through the VERIF hook command on a private control connection
                let mut newop = vec![op[0].clone(), Tok::I(self.logical)];
                newop.extend_from_slice(&op[op.len().min(2)..]);
                if !self.conns.contains_key(&-1) { if let Some(cl) = Client::connect(self.srv.port) { self.conns.insert(-1, cl); } }
                let pw = self.password.clone();
                let cl = self.conns.get_mut(&-1).unwrap();
                let mut ask = |cl: &mut Client, args: &[&[u8]]| -> i64 {
                    let mut w = vec![]; V::cmd(args).wire(&mut w); cl.send(&w);
                    match cl.read(2000) { Rd::Val(V::Int(n)) => n, Rd::Val(V::Simple(_)) => 0, _ => -1 }
                };
                if let Some(p) = &pw { if !self.ctl_authed { ask(cl, &[b"AUTH", p.as_bytes()]); self.ctl_authed = true; } }
                let passes0 = ask(cl, &[b"VERIF", b"SWEEP", b"PASSES"]);
                let wait = |cl: &mut Client, ask: &mut dyn FnMut(&mut Client, &[&[u8]]) -> i64, what: &[u8], target: i64| -> bool {
                    let t0 = Instant::now();
                    while t0.elapsed() < Duration::from_millis(8000) {
                        if ask(cl, &[b"VERIF", b"SWEEP", what]) >= target { return true; }
                        std::thread::sleep(Duration::from_millis(5));
                    }
                    false
                };
                // a pass must start at a known model instant: wait until the sweeper is parked at its
                // wait point, move the logical clock to the next 300 ms grid point not before now, sleep
                // until then, and only then let it run (it starts within a few ms)
                let mut ok = true;
                if &name[..] != b"SWEEP_RELEASE" {
                    ok = wait(cl, &mut ask, b"WAITING", 1);
                    let el = self.t0.elapsed().as_millis() as i128;
                    let grid = ((el + 299) / 300) * 300;
                    if grid > self.logical { self.logical = grid; }
                    let target = Duration::from_millis(self.logical as u64);
                    let now = self.t0.elapsed();
                    if now < target { std::thread::sleep(target - now); }
                    newop[1] = Tok::I(self.logical);
                }
                let ok2 = match &name[..] {
                    b"SWEEP" => { ask(cl, &[b"VERIF", b"SWEEP", b"STEP"]); wait(cl, &mut ask, b"PASSES", passes0 + 1) }
                    b"SWEEP_GATE" => { ask(cl, &[b"VERIF", b"SWEEP", b"GATE"]); ask(cl, &[b"VERIF", b"SWEEP", b"STEP"]); wait(cl, &mut ask, b"ATGATE", 1) }
                    _ => { ask(cl, &[b"VERIF", b"SWEEP", b"RELEASE"]); wait(cl, &mut ask, b"PASSES", passes0 + 1) }
                };
                let ok = ok && ok2;
                let el = self.t0.elapsed().as_millis() as i128;
                if el - self.logical > 80 { self.drift_bad = true; }
                (newop, if ok { vec![] } else { vec![b("SWEEPTIMEOUT")] })
            }
            b"SUBCMD" | b"DRAIN" | b"SUBRAW" => {
                // [SUBCMD c t request]: send the request and an ECHO marker in ONE write (so the server sees one
                // batch) and collect every frame that arrives on c before the marker's reply: pushed messages
                // not read yet, frames pushed by this very request, its confirmations / reply.
                // [DRAIN c t]: the marker alone.  Output: [closed; frames...].
                // (The connection must not be inside MULTI: the marker would be queued.)
                static MARK: std::sync::atomic::AtomicU64 = std::sync::atomic::AtomicU64::new(0);
                let c = tok_int(&op[1]);
                let mut newop = op.to_vec(); newop[2] = Tok::I(self.logical);
                let mut nm = vec![]; let mut nargs = 0;
                let mut wire = vec![];
                if &name[..] == b"SUBRAW" {
                    // [SUBRAW c t bytes]: a pipelined chunk of raw bytes instead of one request (same output as RAW,
                    // but delimited by the marker instead of a quiet period)
                    wire.extend_from_slice(tok_bytes(&op[3]));
                } else if &name[..] == b"SUBCMD" {
                    let mut pos = 3;
                    let req = match V::dec(op, &mut pos) { Some(r) => r, None => return (op.to_vec(), vec![b("BADFRAME")]) };
                    nm = req_name(&req); if let V::Array(l) = &req { nargs = l.len(); }
                    req.wire(&mut wire);
                }
                let marker = format!("__verif_marker_{}", MARK.fetch_add(1, std::sync::atomic::Ordering::SeqCst)).into_bytes();
                V::cmd(&[b"ECHO", &marker]).wire(&mut wire);
                if nm == b"QUIT" { self.quit_sent.insert(c); }
                let may_close = self.quit_sent.contains(&c);
                let cl = match self.conns.get_mut(&c) { Some(x) => x, None => return (newop, vec![i(1)]) };
                if !cl.send(&wire) { return (newop, vec![i(1)]); }
                let mut frames = vec![]; let mut closed = 0; let mut odd: Option<&str> = None;
                loop {
                    match cl.read(3000) {
                        Rd::Val(V::Bulk(x)) if x == marker => break,
                        Rd::Val(v) => frames.push(v),
                        Rd::Timeout => { odd = Some("TIMEOUT"); break; }
                        Rd::Closed => { closed = 1; break; }
                        Rd::Bad => { odd = Some("GARBAGE"); break; }
                    }
                }
                // a connection that has sent QUIT is closed by the server at the end of the loop iteration in
                // which it has no subscription left: a second marker is then never answered (EOF instead);
                // if the connection lingers (closing-leak) it is
                if may_close && closed == 0 && odd.is_none() {
                    let m2 = format!("__verif_marker_{}", MARK.fetch_add(1, std::sync::atomic::Ordering::SeqCst)).into_bytes();
                    let mut w2 = vec![]; V::cmd(&[b"ECHO", &m2]).wire(&mut w2);
                    if !cl.send(&w2) { closed = 1; } else {
                        loop { match cl.read(3000) { Rd::Val(V::Bulk(x)) if x == m2 => break, Rd::Val(v) => frames.push(v), Rd::Timeout => { odd = Some("TIMEOUT"); break; } Rd::Closed => { closed = 1; break; } Rd::Bad => { odd = Some("GARBAGE"); break; } } }
                    }
                }
                if (nm == b"UNSUBSCRIBE" || nm == b"PUNSUBSCRIBE") && nargs == 1 { canon_unsub_all(&nm.to_ascii_lowercase(), &mut frames); }
                // confirmations of a queued unsubscribe-all are spliced into the EXEC reply in HashSet order
                // (generators queue at most one (P)UNSUBSCRIBE per transaction, named ones with sorted names)
                if nm == b"EXEC" { for f in frames.iter_mut() { if let V::Array(l) = f { canon_unsub_all(b"unsubscribe", l); canon_unsub_all(b"punsubscribe", l); } } }
                let mut out = vec![i(closed)];
                for f in canon_pushes(frames) { canon(f).enc(&mut out); }
                if let Some(w) = odd { out.push(b(w)); }
                (newop, out)
            }
            b"RAW" => {
                // [RAW c t chunk...]: write the chunks 25 ms apart, then collect everything the server
                // sends until it has been quiet for 150 ms; output = [closed?; reply frames...]
                let c = tok_int(&op[1]);
                let mut newop = op.to_vec(); newop[2] = Tok::I(self.logical);
                let mut cl = match self.conns.remove(&c) { Some(x) => x, None => return (newop, vec![b("CLOSED")]) };
                for ch in &op[3..] { let _ = cl.send(tok_bytes(ch)); std::thread::sleep(Duration::from_millis(25)); }
                let mut frames = vec![]; let mut closed = 0; let mut bad = false;
                // "quiet" is decided by the server, not by the clock alone: after 150 ms without a frame
                // two round trips on the control connection guarantee that the event loop has visited this
                // connection with everything we sent already in its socket; only if nothing arrives after
                // that is the collection over (a loaded machine then delays the barrier, not the verdict)
                let mut wait_ms = 150;
                loop {
                    match cl.read(wait_ms) {
                        Rd::Val(v) => { frames.push(v); wait_ms = 150; }
                        Rd::Timeout => { if wait_ms == 60 { break; } self.barrier(); wait_ms = 60; }
                        Rd::Closed => { closed = 1; break; }
                        Rd::Bad => { bad = true; break; }
                    }
                }
                self.conns.insert(c, cl);
                let mut out = vec![i(closed)];
                for f in canon_pushes(frames) { canon(f).enc(&mut out); }
                if bad { out.push(b("GARBAGE")); }
                (newop, out)
            }

            // ---- blocking-pop histories (C13) ----
            b"BCONN" => {
                // connect and learn the id the server gave this connection (CLIENT ID)
                let c = tok_int(&op[1]);
                match Client::connect(self.srv.port) {
                    Some(mut cl) => {
                        let mut w = vec![]; V::cmd(&[b"CLIENT", b"ID"]).wire(&mut w); cl.send(&w);
                        if let Rd::Val(V::Int(id)) = cl.read(3000) { self.blk.ids.insert(id, c); }
                        self.conns.insert(c, cl); self.blk.owed.insert(c, 0);
                        (op.to_vec(), vec![i(1)])
                    }
                    None => (op.to_vec(), vec![i(0)]),
                }
            }
            b"BSEND" => {
                // [BSEND c t n frame*n (oracles)]: one write of n requests, no reply awaited
                let c = tok_int(&op[1]); let n = tok_int(&op[3]) as usize;
                let mut pos = 4; let mut wire = vec![]; let mut oracles = vec![];
                for _ in 0..n {
                    let req = match V::dec(op, &mut pos) { Some(r) => r, None => return (op.to_vec(), vec![b("BADFRAME")]) };
                    req.wire(&mut wire);
                    oracles.push(blocking_timeout_oracle(&req));
                }
                self.sync_clock();
                let mut newop = op[..pos].to_vec(); newop[2] = Tok::I(self.logical);
                let has_finite = oracles.iter().any(|o| *o > 0);
                let oracle_list = oracles.clone();
                for o in oracles { newop.push(Tok::I(o)); }
                if !self.settle() { return (newop, vec![b("CLOSED")]); }
                self.drain_all();
                // requests written behind a blocking call run when that call is answered: if it can time out that
                // happens between two instants of the logical clock, and if another connection has requests
                // waiting too the server reads the two in HashMap order - such a write is skipped
                let owed_c = *self.blk.owed.get(&c).unwrap_or(&0);
                if owed_c == 0 { self.blk.finite.insert(c, false); }
                // a write that may leave requests waiting: to a blocked connection, or with requests behind a blocking pop
                let may_wait = owed_c > 0 || oracle_list.iter().take(n.saturating_sub(1)).any(|o| *o >= 0);
                let skip = (owed_c > 0 && *self.blk.finite.get(&c).unwrap_or(&false))
                    || (may_wait && self.blk.owed.iter().any(|(k, v)| *k != c && *v > 1));
                if !skip {
                    if has_finite { self.blk.finite.insert(c, true); }
                    let cl = match self.conns.get_mut(&c) { Some(x) => x, None => return (newop, vec![b("CLOSED")]) };
                    let _ = cl.send(&wire);
                    *self.blk.owed.entry(c).or_insert(0) += n as i64;
                    if !self.settle() { return (newop, vec![b("CLOSED")]); }
                    self.drain_all();
                }
                let mut out = vec![i(skip as i64)];
                match self.blocking_dump() { Some(d) => out.extend(d), None => return (newop, vec![b("CLOSED")]) }
                self.drift_check();
                (newop, out)
            }
            b"BRECV" => {
                let c = tok_int(&op[1]);
                self.sync_clock();
                let mut newop = op.to_vec(); newop[2] = Tok::I(self.logical);
                if !self.settle() { return (newop, vec![b("CLOSED")]); }
                self.drain_all();
                let frames = self.blk.inbox.remove(&c).unwrap_or_default();
                let mut out = vec![i(self.blk.eof.contains(&c) as i64)];
                for f in frames { canon(f).enc(&mut out); }
                if self.blk.broken.contains(&c) { out.push(b("BROKEN")); }
                self.drift_check();
                (newop, out)
            }
            b"BSLEEP" => {
                // advance the logical clock by the grid step - or, when real time is already past that, to the
                // next grid point not before now - and wait for it; the actual advance is recorded for the model
                let step = tok_int(&op[1]).max(1);
                let el = self.t0.elapsed().as_millis() as i128;
                let mut target = self.logical + step;
                if el > target { target = ((el + step - 1) / step) * step; }
                let adv = target - self.logical;
                self.logical = target;
                let now = self.t0.elapsed();
                let tg = Duration::from_millis(target as u64);
                if now < tg { std::thread::sleep(tg - now); }
                (vec![op[0].clone(), Tok::I(adv)], vec![])
            }
            b"BDUMP" => {
                self.sync_clock();
                let mut newop = op.to_vec(); if newop.len() > 1 { newop[1] = Tok::I(self.logical); }
                if !self.settle() { return (newop, vec![b("CLOSED")]); }
                self.drain_all();
                let r = match self.blocking_dump() { Some(d) => (newop, d), None => (newop, vec![b("CLOSED")]) };
                self.drift_check();
                r
            }
            b"BCLOSE" => {
                // [BCLOSE c t]
                let c = tok_int(&op[1]);
                self.sync_clock();
                let mut newop = op.to_vec(); if newop.len() > 2 { newop[2] = Tok::I(self.logical); }
                if !self.settle() { return (newop, vec![b("CLOSED")]); }
                self.drain_all();
                let o = *self.blk.owed.get(&c).unwrap_or(&0);
                if o > 1 { return (newop, vec![i(1), i(o)]); }
                // what the client had received and not yet reported goes with the close
                let frames = self.blk.inbox.remove(&c).unwrap_or_default();
                let mut out = vec![i(0), i(o)];
                for f in frames { canon(f).enc(&mut out); }
                self.conns.remove(&c);
                std::thread::sleep(Duration::from_millis(10));
                if !self.settle() { return (newop, vec![b("CLOSED")]); }
                self.drain_all();
                self.drift_check();
                (newop, out)
            }
            b"BCLOSEF" => {
                // [BCLOSEF c]: the client goes away whatever it is still owed (BCLOSE declines then). Used by the
                // witness of the open class blocked-hangup-unread-input only; not generated, not modelled
                let c = tok_int(&op[1]);
                if !self.settle() { return (op.to_vec(), vec![b("CLOSED")]); }
                self.drain_all();
                self.blk.inbox.remove(&c);
                self.conns.remove(&c);
                std::thread::sleep(Duration::from_millis(30));
                if !self.settle() { return (op.to_vec(), vec![b("CLOSED")]); }
                (op.to_vec(), vec![i(0)])
            }
            b"BIG" => {
                // [BIG c t key seed size count]: SET key <size-byte pattern>, then count GETs and a PING in ONE
                // write; the client starts reading only after 60 ms and then reads everything: the replies
                // exceed what the socket takes in one write, so the server's flush sees partial writes and a
                // full socket.  Bulk replies are reported as (length, 32-bit checksum).
                let c = tok_int(&op[1]);
                let mut newop = op.to_vec(); newop[2] = Tok::I(self.logical);
                let key = tok_bytes(&op[3]).to_vec();
                let (seed, size, count) = (tok_int(&op[4]), tok_int(&op[5]), tok_int(&op[6]));
                let val: Vec<u8> = (0..size).map(|k| ((k * 7 + k / 251 + seed).rem_euclid(256)) as u8).collect();
                let cl = match self.conns.get_mut(&c) { Some(x) => x, None => return (newop, vec![b("CLOSED")]) };
                let mut w = vec![]; V::cmd(&[b"SET", &key, &val]).wire(&mut w);
                for _ in 0..count { V::cmd(&[b"GET", &key]).wire(&mut w); }
                V::cmd(&[b"PING"]).wire(&mut w);
                if !cl.send(&w) { return (newop, vec![b("CLOSED")]); }
                std::thread::sleep(Duration::from_millis(60));
                let mut out = vec![];
                for _ in 0..(count + 2) {
                    match cl.read(8000) {
                        Rd::Val(V::Bulk(v)) => {
                            let mut h: u64 = 5381;
                            for x in &v { h = (h * 33 + (*x as u64)) & 0xFFFF_FFFF; }
                            out.push(i(3)); out.push(i(v.len() as i128)); out.push(i(h as i128));
                        }
                        Rd::Val(v) => canon(v).enc(&mut out),
                        Rd::Timeout => { out.push(b("TIMEOUT")); break; }
                        Rd::Closed => { out.push(b("CLOSED")); break; }
                        Rd::Bad => { out.push(b("GARBAGE")); break; }
                    }
                }
                (newop, out)
            }
            _ => (op.to_vec(), vec![b("BADOP")]),
        }
    }

    /// blocking-pop histories: timeouts are 300/900 ms against a 600 ms grid of the logical clock, so an
    /// operation may run up to 250 ms behind the logical instant it belongs to.  An operation that would start
    /// more than 100 ms behind moves the logical clock to the next grid point first (and waits for it): the
    /// time it records in the op is what the model's clock follows.
    fn sync_clock(&mut self) {
        const GRID: i128 = 600;
        let el = self.t0.elapsed().as_millis() as i128;
        if el - self.logical > 100 {
            let target = ((el + GRID - 1) / GRID) * GRID;
            self.logical = target;
            let now = self.t0.elapsed(); let tg = Duration::from_millis(target as u64);
            if now < tg { std::thread::sleep(tg - now); }
        }
    }
    fn drift_check(&mut self) {
        let el = self.t0.elapsed().as_millis() as i128;
        if el - self.logical > 250 { self.blk.drift = true; }
    }
    fn ctl(&mut self) -> Option<&mut Client> {
        if !self.conns.contains_key(&-1) { if let Some(cl) = Client::connect(self.srv.port) { self.conns.insert(-1, cl); } }
        self.conns.get_mut(&-1)
    }
    fn ctl_int(&mut self, args: &[&[u8]]) -> Option<i64> {
        let cl = self.ctl()?;
        let mut w = vec![]; V::cmd(args).wire(&mut w); if !cl.send(&w) { return None; }
        match cl.read(2000) { Rd::Val(V::Int(n)) => Some(n), _ => None }
    }
    /// wait until the event loop has gone through 5 more full iterations (VERIF ITER): everything the
    /// requests written so far cause - replies, wake-ups, deliveries, reads of unblocked connections - is done
    pub fn settle(&mut self) -> bool {
        let n0 = match self.ctl_int(&[b"VERIF", b"ITER"]) { Some(n) => n, None => { self.blk.ctl_dead = true; return false } };
        let t0 = Instant::now();
        loop {
            match self.ctl_int(&[b"VERIF", b"ITER"]) { Some(n) if n >= n0 + 6 => return true, Some(_) => {}, None => return false }
            if t0.elapsed() > Duration::from_secs(3) { return false; }
        }
    }
    /// move every frame that has arrived on a client connection into its inbox
    pub fn drain_all(&mut self) {
        let keys: Vec<i128> = self.conns.keys().cloned().filter(|k| *k >= 0 && self.blk.owed.contains_key(k)).collect();
        for k in keys {
            let cl = self.conns.get_mut(&k).unwrap();
            let (frames, eof, bad) = cl.poll();
            *self.blk.owed.entry(k).or_insert(0) -= frames.len() as i64;
            self.blk.inbox.entry(k).or_default().extend(frames);
            if eof { self.blk.eof.insert(k); }
            if bad { self.blk.broken.insert(k); }
        }
    }
    /// VERIF BLOCKING as tokens: wake-queue length, then per (db, key): db, key, number of waiters, their
    /// connections (numbered as in the history; 0 = the id used inside EXEC)
    pub fn blocking_dump(&mut self) -> Option<Vec<Tok>> {
        let ids = self.blk.ids.clone();
        let cl = self.ctl()?;
        let mut w = vec![]; V::cmd(&[b"VERIF", b"BLOCKING"]).wire(&mut w); if !cl.send(&w) { return None; }
        match cl.read(2000) {
            Rd::Val(V::Array(l)) => {
                let mut out = vec![];
                for (k, x) in l.iter().enumerate() {
                    match x {
                        V::Int(n) if k == 0 => out.push(i(*n)),
                        V::Array(r) if r.len() >= 2 => {
                            if let (V::Int(db), V::Bulk(key)) = (&r[0], &r[1]) {
                                out.push(i(*db)); out.push(bv(key)); out.push(i((r.len() - 2) as i64));
                                for idv in &r[2..] { if let V::Int(id) = idv { out.push(Tok::I(if *id == 0 { 0 } else { *ids.get(id).unwrap_or(&(-(*id as i128))) })); } }
                            }
                        }
                        _ => out.push(b("BADDUMP")),
                    }
                }
                Some(out)
            }
            _ => None,
        }
    }
    pub fn finish(mut self) -> bool {
        // the control connection of a blocking-pop history went dead: give a server whose event loop has ended
        // the time to finish exiting before its liveness is sampled
        if self.blk.ctl_dead { let t0 = Instant::now(); while self.srv.alive() && t0.elapsed() < Duration::from_secs(4) { std::thread::sleep(Duration::from_millis(20)); } }
        let alive = self.srv.alive(); self.conns.clear(); self.srv.stop(false); alive }
    /// two request/reply round trips on the private control connection (authenticated when needed)
    pub fn barrier(&mut self) {
        if !self.conns.contains_key(&-1) { if let Some(cl) = Client::connect(self.srv.port) { self.conns.insert(-1, cl); } }
        let pw = self.password.clone();
        if let Some(cl) = self.conns.get_mut(&-1) {
            let mut ask = |cl: &mut Client, args: &[&[u8]]| { let mut w = vec![]; V::cmd(args).wire(&mut w); cl.send(&w); let _ = cl.read(8000); };
            if let Some(p) = &pw { if !self.ctl_authed { ask(cl, &[b"AUTH", p.as_bytes()]); self.ctl_authed = true; } }
            ask(cl, &[b"PING"]); ask(cl, &[b"PING"]);
        }
    }
}

/// run a whole case on a fresh server; a case that hit a harness-side timeout (reply or sweeper wait
/// not seen in time: machine overload, not a property of the server) is re-run once
pub fn run_case(c: &Case, o: &SrvOpts) -> Case {
    let r = run_case_once(c, o);
    let infra = r.outs.iter().any(|out| out.len() == 1 && matches!(&out[0], Tok::B(w) if w == b"TIMEOUT" || w == b"SWEEPTIMEOUT" || w == b"BADREPLY"));
    if infra { run_case_once(c, o) } else { r }
}
pub fn run_case_once(c: &Case, o: &SrvOpts) -> Case {
    // an initial [SERVER password] op configures the server of this case
    let mut opts = SrvOpts { password: o.password.clone(), aof: o.aof, dir: o.dir.clone(), keep_dir: o.keep_dir };
    let mut skip = 0;
    let mut out = Case { id: c.id.clone(), ops: vec![], outs: vec![] };
    if let Some(first) = c.ops.first() {
        if matches!(first.first(), Some(Tok::B(n)) if n == b"SERVER") {
            let pw = tok_bytes(&first[1]).to_vec();
            if !pw.is_empty() { opts.password = Some(String::from_utf8_lossy(&pw).to_string()); }
            out.ops.push(first.clone()); out.outs.push(vec![]);
            skip = 1;
        }
    }
    let mut r = Runner::new(&opts);
    for op in &c.ops[skip..] { let (o2, res) = r.op(op); out.ops.push(o2); out.outs.push(res); }
    let drift = (r.drift_bad && c.ops.iter().any(|o| matches!(o.first(), Some(Tok::B(n)) if n == b"SLEEP"))) || r.blk.drift;
    let alive = r.finish();
    if !alive { out.ops.push(vec![b("ALIVE")]); out.outs.push(vec![i(0)]); }
    if drift { out.id = format!("{}-DISCARD", out.id); }
    out
}

/// the timeout argument of BLPOP/BRPOP as the server reads it (f64 text is an oracle for the model):
/// -2 not a blocking pop, -1 refused, 0 forever, else milliseconds (at least 1)
pub fn blocking_timeout_oracle(req: &V) -> i128 {
    let nm = req_name(req);
    if nm != b"BLPOP" && nm != b"BRPOP" { return -2; }
    let l = match req { V::Array(l) => l, _ => return -2 };
    match l.last() {
        Some(V::Bulk(a)) if l.len() >= 3 => {
            match String::from_utf8_lossy(a).parse::<f64>() {
                Ok(t) if t < 0.0 => -1,
                Ok(t) if t == 0.0 => 0,
                Ok(t) if !t.is_finite() || t > 1.0e9 => -1,
                Ok(t) => std::cmp::max(1, Duration::from_secs_f64(t).as_millis() as i128),
                Err(_) => -1,
            }
        }
        _ => -2,
    }
}

// ---- helpers for generators ----
pub fn cmd_op(conn: i64, args: &[&[u8]]) -> Vec<Tok> {
    let mut o = vec![b("CMD"), i(conn), i(0)];
    V::cmd(args).enc(&mut o); o
}
pub fn cmd_frame_op(conn: i64, req: &V) -> Vec<Tok> { let mut o = vec![b("CMD"), i(conn), i(0)]; req.enc(&mut o); o }
pub fn conn_op(conn: i64) -> Vec<Tok> { vec![b("CONN"), i(conn)] }
pub fn sleep_op(ms: i64) -> Vec<Tok> { vec![b("SLEEP"), i(ms)] }
pub fn raw_op(conn: i64, chunks: &[Vec<u8>]) -> Vec<Tok> { let mut o = vec![b("RAW"), i(conn), i(0)]; for c in chunks { o.push(bv(c)); } o }
pub fn sweep_op() -> Vec<Tok> { vec![b("SWEEP"), i(0)] }
pub fn sweep_gate_op() -> Vec<Tok> { vec![b("SWEEP_GATE"), i(0)] }
pub fn sweep_release_op() -> Vec<Tok> { vec![b("SWEEP_RELEASE"), i(0)] }
pub fn bconn_op(conn: i64) -> Vec<Tok> { vec![b("BCONN"), i(conn)] }
pub fn bsend_op(conn: i64, reqs: &[V]) -> Vec<Tok> { let mut o = vec![b("BSEND"), i(conn), i(0), i(reqs.len() as i64)]; for r in reqs { r.enc(&mut o); } o }
pub fn brecv_op(conn: i64) -> Vec<Tok> { vec![b("BRECV"), i(conn), i(0)] }
pub fn bsleep_op(ms: i64) -> Vec<Tok> { vec![b("BSLEEP"), i(ms)] }
pub fn bclose_op(conn: i64) -> Vec<Tok> { vec![b("BCLOSE"), i(conn), i(0)] }
pub fn subcmd_op(conn: i64, args: &[&[u8]]) -> Vec<Tok> { let mut o = vec![b("SUBCMD"), i(conn), i(0)]; V::cmd(args).enc(&mut o); o }
pub fn subcmd_frame_op(conn: i64, req: &V) -> Vec<Tok> { let mut o = vec![b("SUBCMD"), i(conn), i(0)]; req.enc(&mut o); o }
pub fn subraw_op(conn: i64, bytes: &[u8]) -> Vec<Tok> { vec![b("SUBRAW"), i(conn), i(0), bv(bytes)] }
pub fn drain_op(conn: i64) -> Vec<Tok> { vec![b("DRAIN"), i(conn), i(0)] }
pub fn close_op(conn: i64) -> Vec<Tok> { vec![b("CLOSE"), i(conn)] }
pub fn server_op(password: &[u8]) -> Vec<Tok> { vec![b("SERVER"), bv(password)] }

/// every command name the server dispatches, read from /repo's current source
pub fn dispatch_names() -> Vec<String> {
    let repo = std::env::var("VERIF_REPO").unwrap_or("/repo".to_string());
    let src = std::fs::read_to_string(format!("{}/src/network/server.rs", repo)).unwrap_or_default();
    let mut names: Vec<String> = vec![];
    let bytes = src.as_bytes();
    let mut p = 0;
    while let Some(q) = src[p..].find('"') {
        let st = p + q + 1;
        if let Some(e) = src[st..].find('"') {
            let w = &src[st..st + e];
            let after = src[st + e + 1..].trim_start();
            if w.len() >= 3 && w.chars().all(|c| c.is_ascii_uppercase()) && (after.starts_with("=>") || after.starts_with('|'))
                && !names.contains(&w.to_string()) { names.push(w.to_string()); }
            p = st + e + 1;
        } else { break; }
    }
    let _ = bytes;
    names.retain(|n| n != "VERIF");
    names
}
