//! Live-server driver: the real Server::run loop in a child process of this
//! binary (`verif-harness serve ...`), histories of CONN/CMD/SLEEP/CLOSE ops.
use crate::resp::*;
use crate::tok::*;
use std::collections::HashMap;
use std::process::{Child, Command, Stdio};
use std::time::{Duration, Instant};

pub struct Srv { pub child: Child, pub port: u16, pub dir: std::path::PathBuf }

pub struct SrvOpts { pub password: Option<String>, pub aof: bool, pub dir: Option<std::path::PathBuf>, pub keep_dir: bool }
impl Default for SrvOpts { fn default() -> Self { SrvOpts { password: None, aof: false, dir: None, keep_dir: false } } }

fn free_port() -> u16 {
    let l = std::net::TcpListener::bind("127.0.0.1:0").unwrap();
    l.local_addr().unwrap().port()
}

static COUNTER: std::sync::atomic::AtomicU64 = std::sync::atomic::AtomicU64::new(0);

impl Srv {
    pub fn start(o: &SrvOpts) -> Srv {
        for _attempt in 0..5 {
            let port = free_port();
            let dir = o.dir.clone().unwrap_or_else(|| {
                let base = std::env::var("VERIF_SCRATCH").unwrap_or("/verif/build/scratch".to_string());
                let d = std::path::PathBuf::from(base).join(format!("s{}_{}", std::process::id(), COUNTER.fetch_add(1, std::sync::atomic::Ordering::SeqCst)));
                d
            });
            std::fs::create_dir_all(&dir).unwrap();
            let exe = std::env::current_exe().unwrap();
            let mut c = Command::new(exe);
            c.arg("serve").arg("--port").arg(port.to_string()).arg("--dir").arg(&dir);
            if let Some(p) = &o.password { c.arg("--pass").arg(p); }
            if o.aof { c.arg("--aof"); }
            c.current_dir(&dir).stdin(Stdio::null()).stdout(Stdio::null()).stderr(Stdio::null());
            let mut child = c.spawn().expect("spawn server");
            let t0 = Instant::now();
            loop {
                if let Ok(Some(_)) = child.try_wait() { break; }
                if std::net::TcpStream::connect(("127.0.0.1", port)).is_ok() {
                    // the port may have been taken by a server of a concurrently running harness
                    // (ours then fails to bind and exits): make sure the one that answers is our child
                    std::thread::sleep(Duration::from_millis(25));
                    if let Ok(Some(_)) = child.try_wait() { break; }
                    return Srv { child, port, dir };
                }
                if t0.elapsed() > Duration::from_secs(8) { let _ = child.kill(); let _ = child.wait(); break; }
                std::thread::sleep(Duration::from_millis(5));
            }
        }
        panic!("could not start server");
    }
    pub fn alive(&mut self) -> bool { matches!(self.child.try_wait(), Ok(None)) }
    pub fn stop(mut self, keep_dir: bool) {
        let _ = self.child.kill(); let _ = self.child.wait();
        if !keep_dir { let _ = std::fs::remove_dir_all(&self.dir); }
    }
}

/// serve mode: run the real server in this process
pub fn serve(args: &[String]) {
    let get = |n: &str| args.iter().position(|a| a == n).and_then(|p| args.get(p + 1)).cloned();
    let mut cfg = ferrous::Config::default();
    cfg.network.port = get("--port").unwrap().parse().unwrap();
    cfg.network.bind_addr = "127.0.0.1".to_string();
    cfg.network.password = get("--pass");
    let dir = get("--dir").unwrap();
    cfg.rdb.dir = dir.clone();
    if args.iter().any(|a| a == "--aof") { cfg.aof.enabled = true; cfg.aof.dir = dir.clone(); }
    let _ = std::panic::take_hook();
    match ferrous::Server::from_config(cfg) {
        Ok(mut s) => { let r = s.run(); eprintln!("server ended: {:?}", r.is_ok()); }
        Err(e) => { eprintln!("server failed to start: {}", e); std::process::exit(3); }
    }
}

/// canonical form shared with Model/Server.v [canon_reply]
fn first_word(b: &[u8]) -> Vec<u8> { b.iter().take_while(|c| **c != b' ').cloned().collect() }
pub fn canon(v: V) -> V {
    match v {
        V::Error(b) => V::Error(first_word(&b)),
        V::Array(l) => V::Array(l.into_iter().map(canon).collect()),
        V::Map(l) => V::Map(l.into_iter().map(canon).collect()),
        V::Set(l) => V::Set(l.into_iter().map(canon).collect()),
        x => x,
    }
}
fn sort_bulks(l: &mut Vec<V>) {
    l.sort_by(|a, b| match (a, b) { (V::Bulk(x), V::Bulk(y)) => x.cmp(y), _ => std::cmp::Ordering::Equal });
}
pub fn canon_reply(name: &[u8], v: V) -> V {
    let v = canon(v);
    match name {
        b"TTL" | b"PTTL" => match v { V::Int(n) if n > 0 => V::Int(1), x => x },
        b"SMEMBERS" | b"SUNION" | b"SINTER" | b"SDIFF" | b"KEYS" | b"HKEYS" | b"HVALS" | b"SPOP" | b"SRANDMEMBER" =>
            match v { V::Array(mut l) => { if l.iter().all(|x| matches!(x, V::Bulk(_))) { sort_bulks(&mut l); } V::Array(l) } x => x },
        b"HGETALL" => match v {
            V::Array(l) if l.len() % 2 == 0 && l.iter().all(|x| matches!(x, V::Bulk(_))) => {
                let mut pairs: Vec<(V, V)> = l.chunks(2).map(|c| (c[0].clone(), c[1].clone())).collect();
                pairs.sort_by(|a, b| match (&a.0, &b.0) { (V::Bulk(x), V::Bulk(y)) => x.cmp(y), _ => std::cmp::Ordering::Equal });
                V::Array(pairs.into_iter().flat_map(|(k, v)| vec![k, v]).collect())
            }
            x => x },
        _ => v,
    }
}
pub fn req_name(req: &V) -> Vec<u8> {
    match req { V::Array(l) => match l.first() { Some(V::Bulk(b)) => b.to_ascii_uppercase(), _ => vec![] }, _ => vec![] }
}
const RANDOM_CMDS: &[&[u8]] = &[b"RANDOMKEY", b"SPOP", b"SRANDMEMBER"];

pub struct Runner { pub srv: Srv, pub conns: HashMap<i128, Client>, pub t0: Instant, pub logical: i128, pub drift_bad: bool }

impl Runner {
    pub fn new(o: &SrvOpts) -> Runner { Runner { srv: Srv::start(o), conns: HashMap::new(), t0: Instant::now(), logical: 0, drift_bad: false } }
    /// one op; returns (possibly augmented op, output)
    pub fn op(&mut self, op: &[Tok]) -> (Vec<Tok>, Vec<Tok>) {
        let name = tok_bytes(&op[0]).to_vec();
        match &name[..] {
            b"CONN" => { let c = tok_int(&op[1]); match Client::connect(self.srv.port) { Some(cl) => { self.conns.insert(c, cl); (op.to_vec(), vec![i(1)]) } None => (op.to_vec(), vec![i(0)]) } }
            b"CLOSE" => { let c = tok_int(&op[1]); self.conns.remove(&c); std::thread::sleep(Duration::from_millis(15)); (op.to_vec(), vec![]) }
            b"SLEEP" => {
                self.logical += tok_int(&op[1]);
                let target = Duration::from_millis(self.logical as u64);
                let el = self.t0.elapsed();
                if el < target { std::thread::sleep(target - el); }
                (op.to_vec(), vec![])
            }
            b"CMD" => {
                let c = tok_int(&op[1]);
                let mut pos = 3;
                let req = match V::dec(op, &mut pos) { Some(r) => r, None => return (op.to_vec(), vec![b("BADFRAME")]) };
                // drift check: real time must stay within 80 ms of the logical clock
                let el = self.t0.elapsed().as_millis() as i128;
                if el - self.logical > 80 { self.drift_bad = true; }
                let mut wire = vec![]; req.wire(&mut wire);
                let nm = req_name(&req);
                let cl = match self.conns.get_mut(&c) { Some(x) => x, None => return (op.to_vec(), vec![b("NOCONN")]) };
                if !cl.send(&wire) { return (op[..pos].to_vec(), vec![b("CLOSED")]); }
                let mut newop = op[..pos].to_vec();
                newop[2] = Tok::I(self.logical);
                match cl.read(3000) {
                    Rd::Val(v) => {
                        if RANDOM_CMDS.contains(&&nm[..]) { v.enc(&mut newop); }
                        let mut out = vec![]; canon_reply(&nm, v).enc(&mut out); (newop, out)
                    }
                    Rd::Timeout => (newop, vec![b("TIMEOUT")]),
                    Rd::Closed => (newop, vec![b("CLOSED")]),
                    Rd::Bad => (newop, vec![b("BADREPLY")]),
                }
            }
            _ => (op.to_vec(), vec![b("BADOP")]),
        }
    }
    pub fn finish(mut self) -> bool { let alive = self.srv.alive(); self.conns.clear(); self.srv.stop(false); alive }
}

/// run a whole case on a fresh server
pub fn run_case(c: &Case, o: &SrvOpts) -> Case {
    let mut r = Runner::new(o);
    let mut out = Case { id: c.id.clone(), ops: vec![], outs: vec![] };
    for op in &c.ops { let (o2, res) = r.op(op); out.ops.push(o2); out.outs.push(res); }
    let drift = r.drift_bad;
    let alive = r.finish();
    if !alive { out.ops.push(vec![b("ALIVE")]); out.outs.push(vec![i(0)]); }
    if drift { out.id = format!("{}-DISCARD", out.id); }
    out
}

// ---- helpers for generators ----
pub fn cmd_op(conn: i64, args: &[&[u8]]) -> Vec<Tok> {
    let mut o = vec![b("CMD"), i(conn), i(0)];
    V::cmd(args).enc(&mut o); o
}
pub fn cmd_frame_op(conn: i64, req: &V) -> Vec<Tok> { let mut o = vec![b("CMD"), i(conn), i(0)]; req.enc(&mut o); o }
pub fn conn_op(conn: i64) -> Vec<Tok> { vec![b("CONN"), i(conn)] }
pub fn sleep_op(ms: i64) -> Vec<Tok> { vec![b("SLEEP"), i(ms)] }
