//! Token / case-file format shared with the OCaml driver.
use std::fmt::Write as _;
use std::io::{BufRead, Write};

#[derive(Clone, Debug, PartialEq)]
pub enum Tok {
    I(i128),
    B(Vec<u8>),
}

pub fn b(s: &str) -> Tok { Tok::B(s.as_bytes().to_vec()) }
pub fn bv(v: &[u8]) -> Tok { Tok::B(v.to_vec()) }
pub fn i<T: Into<i128>>(x: T) -> Tok { Tok::I(x.into()) }

pub fn toks_to_line(t: &[Tok]) -> String {
    let mut s = String::new();
    for (k, x) in t.iter().enumerate() {
        if k > 0 { s.push(' '); }
        match x {
            Tok::I(z) => { let _ = write!(s, "i{}", z); }
            Tok::B(v) => { s.push('b'); for c in v { let _ = write!(s, "{:02x}", c); } }
        }
    }
    s
}

pub fn line_to_toks(l: &str) -> Vec<Tok> {
    l.split_whitespace().map(|w| {
        let (h, r) = w.split_at(1);
        match h {
            "i" => Tok::I(r.parse::<i128>().expect("bad int token")),
            "b" => Tok::B((0..r.len() / 2).map(|k| u8::from_str_radix(&r[2 * k..2 * k + 2], 16).expect("bad hex")).collect()),
            _ => panic!("bad token {}", w),
        }
    }).collect()
}

#[derive(Clone, Debug, Default)]
pub struct Case {
    pub id: String,
    pub ops: Vec<Vec<Tok>>,
    pub outs: Vec<Vec<Tok>>,
}

pub fn write_case<W: Write>(w: &mut W, c: &Case) {
    writeln!(w, "CASE {}", c.id).unwrap();
    for (k, op) in c.ops.iter().enumerate() {
        writeln!(w, "OP {}", toks_to_line(op)).unwrap();
        if let Some(o) = c.outs.get(k) { writeln!(w, "OUT {}", toks_to_line(o)).unwrap(); }
    }
    writeln!(w, "END").unwrap();
}

pub fn read_cases<R: BufRead>(r: R) -> Vec<Case> {
    let mut out = Vec::new();
    let mut cur = Case::default();
    for l in r.lines() {
        let l = l.unwrap();
        let l = l.trim_end();
        if let Some(x) = l.strip_prefix("CASE") { cur = Case::default(); cur.id = x.trim().to_string(); }
        else if l == "OP" { cur.ops.push(vec![]); }
        else if let Some(x) = l.strip_prefix("OP ") { cur.ops.push(line_to_toks(x)); }
        else if l == "END" { out.push(std::mem::take(&mut cur)); }
        else if l == "OUT" { cur.outs.push(vec![]); }
        else if let Some(x) = l.strip_prefix("OUT ") { cur.outs.push(line_to_toks(x)); }
    }
    out
}

pub fn tok_bytes(t: &Tok) -> &[u8] { match t { Tok::B(v) => v, _ => panic!("expected bytes token") } }
pub fn tok_int(t: &Tok) -> i128 { match t { Tok::I(z) => *z, _ => panic!("expected int token") } }
