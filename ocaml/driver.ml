(* Property-agnostic driver for the extracted Gallina models.
   Reads cases (CASE/OP/OUT/END lines), runs Model.run on the OP lines of each
   case and compares the model's output tokens with the OUT lines recorded
   from the implementation.  Usage: driver <PROP> [--emit] < cases *)
type str = string
module OStr = String
open Model

(* ---- Z <-> decimal text, via the extracted arithmetic only ---- *)
let z_of_small (n : int) : z =
  (* n >= 0, small *)
  let rec pos k = if k = 1 then XH else if k land 1 = 0 then XO (pos (k lsr 1)) else XI (pos (k lsr 1)) in
  if n = 0 then Z0 else Zpos (pos n)

let zten = z_of_small 10
let small_tab = Array.init 256 z_of_small

let z_of_string (s : str) : z =
  let neg = OStr.length s > 0 && s.[0] = '-' in
  let start = if neg then 1 else 0 in
  let acc = ref Z0 in
  for i = start to OStr.length s - 1 do
    let d = Char.code s.[i] - 48 in
    if d < 0 || d > 9 then failwith ("bad integer token: " ^ s);
    acc := Z.add (Z.mul !acc zten) small_tab.(d)
  done;
  if neg then Z.opp !acc else !acc

let int_of_z (x : z) : int =
  let rec ip = function XH -> 1 | XO p -> 2 * ip p | XI p -> 2 * ip p + 1 in
  match x with Z0 -> 0 | Zpos p -> ip p | Zneg p -> - (ip p)

let string_of_z (x : z) : str =
  let bytes = print_int x in
  let b = Buffer.create 24 in
  List.iter (fun c -> Buffer.add_char b (Char.chr (int_of_z c))) bytes;
  Buffer.contents b

let hexval c = match c with
  | '0'..'9' -> Char.code c - 48
  | 'a'..'f' -> Char.code c - 87
  | 'A'..'F' -> Char.code c - 55
  | _ -> failwith "bad hex"

let bytes_of_hex (s : str) (off : int) : z list =
  let n = (OStr.length s - off) / 2 in
  let rec go i acc = if i < 0 then acc
    else go (i - 1) (small_tab.(hexval s.[off + 2*i] * 16 + hexval s.[off + 2*i + 1]) :: acc) in
  go (n - 1) []

let hex_of_bytes (l : z list) : str =
  let b = Buffer.create 32 in
  List.iter (fun c -> Buffer.add_string b (Printf.sprintf "%02x" (int_of_z c))) l;
  Buffer.contents b

let tok_of_string (s : str) : tok =
  if OStr.length s = 0 then failwith "empty token"
  else match s.[0] with
    | 'i' -> TI (z_of_string (OStr.sub s 1 (OStr.length s - 1)))
    | 'b' -> TB (bytes_of_hex s 1)
    | _ -> failwith ("bad token: " ^ s)

let string_of_tok = function
  | TI z -> "i" ^ string_of_z z
  | TB b -> "b" ^ hex_of_bytes b

let toks_of_line (s : str) : tok list =
  OStr.split_on_char ' ' s |> List.filter (fun x -> x <> "") |> List.map tok_of_string

let line_of_toks (l : tok list) : str = OStr.concat " " (List.map string_of_tok l)

let bytes_of_ascii (s : str) : z list =
  List.init (OStr.length s) (fun i -> small_tab.(Char.code s.[i]))

let () =
  let prop = if Array.length Sys.argv > 1 then Sys.argv.(1) else failwith "usage: driver PROP [--emit]" in
  let emit = Array.length Sys.argv > 2 && Sys.argv.(2) = "--emit" in
  let propb = bytes_of_ascii prop in
  let cases = ref 0 and nops = ref 0 and diffs = ref 0 and diffcases = ref 0 in
  let cur_id = ref "" in
  let ops = ref [] and outs = ref [] in
  let strip s = if OStr.length s > 0 && s.[OStr.length s - 1] = '\r' then OStr.sub s 0 (OStr.length s - 1) else s in
  let rest s k = if OStr.length s > k then OStr.sub s k (OStr.length s - k) else "" in
  let finish () =
    incr cases;
    let opl = List.rev !ops and outl = List.rev !outs in
    (* a history of C07 written with the blocking-client operations (an op BCONN) is evaluated by the
       event-loop model of C13: atomicity of EXEC towards clients blocked on its keys *)
    let is_bconn l = OStr.length l >= 11 && OStr.sub l 0 11 = "b42434f4e4e" in
    let runner = if prop = "C07" && List.exists is_bconn opl then bytes_of_ascii "C13" else propb in
    let model = run runner (List.map toks_of_line opl) in
    let model_lines = List.map line_of_toks model in
    if emit then begin
      Printf.printf "CASE %s\n" !cur_id;
      List.iter (fun l -> Printf.printf "MODEL %s\n" l) model_lines;
      print_string "END\n"
    end else begin
      let bad = ref false in
      let rec cmp i ms os =
        match ms, os with
        | [], [] -> ()
        | m :: ms', o :: os' ->
            incr nops;
            let o' = line_of_toks (toks_of_line o) in
            if m <> o' then begin
              incr diffs; bad := true;
              Printf.printf "DIFF case=%s op=%d\n  OP    %s\n  MODEL %s\n  IMPL  %s\n" !cur_id i
                (try List.nth opl i with _ -> "?") m o'
            end;
            cmp (i + 1) ms' os'
        | _ ->
            incr diffs; bad := true;
            Printf.printf "DIFF case=%s op=%d\n  LENGTH model=%d impl=%d\n" !cur_id i
              (List.length model_lines) (List.length outl)
      in
      cmp 0 model_lines outl;
      if !bad then incr diffcases
    end;
    ops := []; outs := []
  in
  (try
    while true do
      let l = strip (input_line stdin) in
      if OStr.length l >= 4 && OStr.sub l 0 4 = "CASE" then cur_id := OStr.trim (rest l 4)
      else if OStr.length l >= 3 && OStr.sub l 0 3 = "OP " || l = "OP" then ops := rest l 3 :: !ops
      else if OStr.length l >= 4 && OStr.sub l 0 4 = "OUT " || l = "OUT" then outs := rest l 4 :: !outs
      else if l = "END" then finish ()
      else ()
    done
  with End_of_file -> ());
  if not emit then
    Printf.printf "SUMMARY cases=%d ops=%d diffs=%d diffcases=%d\n" !cases !nops !diffs !diffcases
