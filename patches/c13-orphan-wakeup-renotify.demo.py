#!/usr/bin/env python3
"""orphan-wakeup-no-renotify: A and B block on q (A first); C pushes one element and A goes away at
the same moment; the wake-up queued for A finds nobody, puts the element back and tells nobody:
B stays blocked beside a list that holds an element.  usage: demo.py <ferrous binary>; exit 1 = stranded"""
import socket, subprocess, sys, time, tempfile, os
def enc(*a):
    out=b"*%d\r\n"%len(a)
    for x in a:
        x=x if isinstance(x,bytes) else str(x).encode()
        out+=b"$%d\r\n%s\r\n"%(len(x),x)
    return out
def port():
    s=socket.socket(); s.bind(("127.0.0.1",0)); p=s.getsockname()[1]; s.close(); return p
def conn(p):
    s=socket.create_connection(("127.0.0.1",p)); s.setsockopt(socket.IPPROTO_TCP, socket.TCP_NODELAY,1); return s
def recv(s,t):
    s.settimeout(t)
    try: return s.recv(65536)
    except socket.timeout: return b""
binp=sys.argv[1]; stranded=0; N=int(sys.argv[2]) if len(sys.argv)>2 else 10
for i in range(N):
    p=port(); d=tempfile.mkdtemp()
    srv=subprocess.Popen([binp,"--port",str(p)],cwd=d,stdout=subprocess.DEVNULL,stderr=subprocess.DEVNULL)
    for _ in range(100):
        try: conn(p).close(); break
        except OSError: time.sleep(0.05)
    a,b,c=conn(p),conn(p),conn(p)
    a.sendall(enc("BLPOP","q","0")); time.sleep(0.1)
    b.sendall(enc("BLPOP","q","0")); time.sleep(0.1)
    c.sendall(enc("LPUSH","q","v")); a.close()
    r=recv(c,1.0); got=recv(b,0.7)
    c.sendall(enc("LRANGE","q","0","-1")); lr=recv(c,1.0)
    print("round",i,"B got",got,"list",lr)
    if got==b"" and b"v" in lr: stranded+=1
    srv.kill(); srv.wait()
print("stranded in %d of %d rounds"%(stranded,N))
sys.exit(1 if stranded else 0)
