#!/bin/sh
# Build the framework from files on disk only (offline): Coq development (full .vo),
# extracted model + OCaml driver, Rust harness against /repo with hooks on.
set -e
cd "$(dirname "$0")"
export CARGO_NET_OFFLINE=true
mkdir -p build evidence replays
python3 - <<'PY'
import sys, os
sys.path.insert(0, "tools")
import vlib
ok, out = vlib.coq_make()
print("coq:", "ok" if ok else out[-3000:])
ok2, msg = vlib.build_driver()
print("driver:", msg[-2000:])
ok3, msg = vlib.build_harness()
print("harness:", "ok" if ok3 else msg)
sys.exit(0 if (ok and ok2 and ok3) else 1)
PY
