#!/bin/bash
# confirm a seeded change: tools/confirm_seed.sh <dir with patch.diff + demo.py> 
# builds in a scratch worktree of /repo: suite passes with the change, demo fails with it and passes without it.
set -u
D=$(realpath "$1"); NAME=$(basename "$D"); W=/tmp/confirm_$NAME
export CARGO_NET_OFFLINE=true CARGO_TARGET_DIR=$W/target
git -C /repo worktree remove --force $W 2>/dev/null; rm -rf $W
git -C /repo worktree add --detach $W HEAD >/dev/null 2>&1 || exit 2
cd $W
demo() { if [ -f "$D/demo.py" ]; then timeout 300 python3 "$D/demo.py" "$W" >/dev/null 2>&1; echo $?; else echo "nodemo"; fi; }
git apply "$D/patch.diff" || { echo "patch does not apply"; exit 2; }
cargo build --offline >/dev/null 2>&1 || { echo "mutant does not build"; }
T=$(cargo test --workspace --no-fail-fast --offline 2>&1 | grep "^test result" | awk '{p+=$4; f+=$6} END {print p" passed "f" failed"}')
DM=$(demo)
git checkout -- . ; cargo build --offline >/dev/null 2>&1
DB=$(demo)
echo "{\"suite_with_change\": \"$T\", \"demo_exit_with_change\": \"$DM\", \"demo_exit_without_change\": \"$DB\"}" | tee "$D/confirm.json"
cd /; git -C /repo worktree remove --force $W; rm -rf $W
