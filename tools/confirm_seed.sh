#!/bin/bash
# confirm a seeded change: tools/confirm_seed.sh <dir with patch.diff + demo.py> 
# builds in a scratch worktree of /repo: suite passes with the change, demo fails with it and passes without it.
set -u
D=$(realpath "$1"); NAME=$(basename "$D"); W=/tmp/confirm_$NAME
export CARGO_NET_OFFLINE=true CARGO_TARGET_DIR=$W/target
git -C /repo worktree remove --force $W 2>/dev/null; rm -rf $W
git -C /repo worktree add --detach $W HEAD >/dev/null 2>&1 || exit 2
cd $W
demo() { if [ -f "$D/demo.py" ]; then timeout 300 python3 "$D/demo.py" "$W" >/dev/null 2>&1; echo $?; else echo "nodemo"; fi; }
git apply "$D/patch.diff" || { echo "patch does not apply"; exit 2; }
cargo build --offline >/dev/null 2>&1 || { echo "mutant does not build"; }
OUT=$(cargo test --workspace --no-fail-fast --offline 2>&1)
T=$(echo "$OUT" | grep "^test result" | awk '{p+=$4; f+=$6} END {print p" passed "f" failed"}')
# timing-sensitive tests (1 ms TTL, Lua loop under 100 ms) fail spuriously on a loaded machine: re-run each failed test alone
FAILED=$(echo "$OUT" | grep -E "^test .* \.\.\. FAILED" | awk '{print $2}' | sort -u)
STILL=""
for t in $FAILED; do
  ok=0
  for i in 1 2 3 4 5; do if cargo test --offline "$t" 2>&1 | grep -q "test result: ok. [1-9]"; then ok=1; break; fi; done
  [ $ok = 1 ] || STILL="$STILL $t"
done
if [ -n "$FAILED" ]; then T="$T (failed in the full run: $(echo $FAILED | tr '\n' ' '); still failing when re-run alone:${STILL:- none})"; fi
DM=$(demo)
git checkout -- . ; cargo build --offline >/dev/null 2>&1
DB=$(demo)
echo "{\"suite_with_change\": \"$T\", \"demo_exit_with_change\": \"$DM\", \"demo_exit_without_change\": \"$DB\"}" | tee "$D/confirm.json"
cd /; git -C /repo worktree remove --force $W; rm -rf $W
