#!/usr/bin/env python3
"""Translator of declarative tables: rewrites coq/Generated.v from /repo's current
sources on every run (DESIGN.md section 2.3).  Regular expressions plus brace
matching only; part of the trusted base."""
import os, re, sys

REPO = os.environ.get("VERIF_REPO", "/repo")
VERIF = os.path.dirname(os.path.dirname(os.path.abspath(__file__)))

def read(p):
    return open(os.path.join(REPO, p), encoding="utf-8", errors="replace").read()

def block_after(src, start):
    """text of the brace block that opens at or after index `start` (inclusive braces)"""
    i = src.index("{", start)
    depth, j = 0, i
    in_str = False
    while j < len(src):
        c = src[j]
        if in_str:
            if c == "\\": j += 1
            elif c == '"': in_str = False
        else:
            if c == '"': in_str = True
            elif c == "'" and j + 2 < len(src) and src[j + 2] == "'": j += 2
            elif c == "'" and j + 3 < len(src) and src[j + 1] == "\\" and src[j + 3] == "'": j += 3
            elif c == "/" and src[j:j + 2] == "//":
                j = src.index("\n", j)
            elif c == "{": depth += 1
            elif c == "}":
                depth -= 1
                if depth == 0:
                    return src[i:j + 1]
        j += 1
    raise ValueError("unbalanced braces")

def fn_body(src, name):
    m = re.search(r"\bfn\s+%s\s*[<(]" % re.escape(name), src)
    if not m:
        return None
    return block_after(src, m.start())

def strings_in(txt):
    return re.findall(r'"([A-Za-z_]+)"', txt)

def coq_list(names):
    return "[" + "; ".join('bs "%s"' % n for n in names) + "]"

def main():
    out = []
    warn = []
    server = read("src/network/server.rs")
    # ---- write commands (AOF / replication / change recording)
    body = fn_body(server, "is_write_command") or ""
    m = re.search(r"matches!\(command,(.*?)\)\s*\n\s*}", body, re.S)
    writes = strings_in(m.group(1)) if m else []
    if not writes: warn.append("write_commands empty")
    out.append("Definition write_commands : list bytes :=\n  %s." % coq_list(writes))
    # ---- authentication gate of process_frame
    pf = fn_body(server, "process_frame") or ""
    g = re.search(r"if\s+self\.config\.password\.is_some\(\)\s*&&\s*conn_status\s*!=\s*ConnectionState::Authenticated", pf)
    allowed, gate_default_noauth = [], False
    if g:
        gb = block_after(pf, g.start())
        mm = re.search(r"match\s+command\.as_str\(\)", gb)
        mb = block_after(gb, mm.start()) if mm else ""
        for arm in re.finditer(r'((?:"[A-Z]+"\s*\|?\s*)+)=>', mb):
            allowed += strings_in(arm.group(1))
        gate_default_noauth = bool(re.search(r'_\s*=>\s*return\s+Ok\(RespFrame::error\("NOAUTH', mb))
    else:
        warn.append("auth gate not found")
    out.append("Definition preauth_allowed : list bytes :=\n  %s." % coq_list(allowed))
    out.append("Definition gate_default_noauth : bool := %s." % ("true" if gate_default_noauth else "false"))
    # position of the gate relative to every other command-name test in process_frame:
    # names tested (match arms / == comparisons) textually before the gate
    before_gate = []
    if g:
        pre = pf[:g.start()]
        before_gate = sorted(set(re.findall(r'"([A-Z]{3,})"\s*(?:\||=>)', pre) + re.findall(r'==\s*"([A-Z]{3,})"', pre)))
        before_gate = [n for n in before_gate if n not in ("SYNC", "PSYNC") or re.search(r'"%s"\s*=>' % n, pre)]
    out.append("Definition names_before_gate_in_process_frame : list bytes :=\n  %s." % coq_list(before_gate))
    # ---- commands handled in the connection loop before process_frame
    pc = fn_body(server, "process_connection") or ""
    a = pc.find("Check for special commands that need connection access")
    b = pc.find("let response = if let Some(sync_resp)")
    region = pc[a:b] if a >= 0 and b > a else ""
    pregate = []
    for m2 in re.finditer(r'if\s+((?:command\s*==\s*"[A-Z]+"\s*(?:\|\|)?\s*)+)', region):
        names = strings_in(m2.group(1))
        blk = block_after(region, m2.end() - 1)
        acts = bool(re.search(r"self\.handle_|sync_response\s*=", blk))
        guarded = "Authenticated" in blk
        for n in names:
            pregate.append((n, acts, guarded))
    out.append("(* (name, performs an action before process_frame, action guarded by an authentication test) *)")
    out.append("Definition pregate : list (bytes * bool * bool) :=\n  [%s]." %
               "; ".join('(bs "%s", %s, %s)' % (n, "true" if x else "false", "true" if y else "false") for n, x, y in pregate))
    # ---- transaction control
    tx = read("src/storage/commands/transactions.rs")
    sq = fn_body(tx, "should_queue_command") or ""
    notq = strings_in(sq)
    out.append("Definition tx_not_queued : list bytes :=\n  %s." % coq_list(notq))
    # commands returned from process_frame before the queueing test
    q = pf.find("should_queue_command")
    early = []
    if g and q > 0:
        mid = pf[g.start() + len(block_after(pf, g.start())):q]
        early = []
        for m3 in re.finditer(r'"([A-Z]+)"\s*=>\s*(?:\{\s*)?return', mid):
            if m3.group(1) not in early: early.append(m3.group(1))
        if re.search(r'command\.as_str\(\)\s*==\s*"MONITOR"', mid) and "MONITOR" not in early:
            early.append("MONITOR")
    out.append("Definition tx_immediate : list bytes :=\n  %s." % coq_list(early))
    # ---- dispatch table of process_normal_command
    pn = fn_body(server, "process_normal_command") or ""
    mm = re.search(r"let\s+result\s*=\s*match\s+command_name\.as_str\(\)", pn)
    disp = []
    if mm:
        mb = block_after(pn, mm.start())
        depth = 0
        # top-level arms only
        i = 1
        cur = ""
        arms = []
        for line in mb.split("\n"):
            stripped = line.strip()
            if depth == 1:
                m4 = re.match(r'(?:#\[cfg\(ferrous_verif\)\]\s*)?"([A-Z]+)"\s*=>\s*(.*)', stripped)
                if m4:
                    arms.append((m4.group(1), m4.group(2)))
            depth += line.count("{") - line.count("}")
        prev_cfg = False
        for name, rhs in arms:
            if name == "VERIF":
                continue
            h = re.search(r"([a-z_:]+::)?(handle_[a-z_]+|[a-z_]+::handle_[a-z_]+)", rhs)
            disp.append((name, h.group(2).split("::")[-1] if h else "inline"))
    out.append("Definition dispatch_table : list (bytes * bytes) :=\n  [%s]." %
               ";\n   ".join('(bs "%s", bs "%s")' % (n, h) for n, h in disp))
    # ---- which dispatch arms of process_normal_command speak about the connection (use conn_id), and which
    # queued commands handle_exec runs with the real connection id instead of the placeholder 0
    def full_arms(block):
        arms, cur, depth = [], None, 0
        for line in block.split("\n"):
            stripped = line.strip()
            if depth == 1:
                m4 = re.match(r'(?:#\[cfg\(ferrous_verif\)\]\s*)?((?:"[A-Z]+"\s*\|\s*)*"[A-Z]+")\s*=>', stripped)
                if m4:
                    cur = [strings_in(m4.group(1)), ""]; arms.append(cur)
                elif re.match(r'_\s*=>', stripped):
                    cur = None
            if cur is not None: cur[1] += line + "\n"
            depth += line.count("{") - line.count("}")
        return arms
    conn_arms = []
    if mm:
        for names, body in full_arms(block_after(pn, mm.start())):
            if re.search(r"\bconn_id\b", body):
                conn_arms += [n for n in names if n != "VERIF"]
    he = fn_body(server, "handle_exec") or ""
    me = re.search(r"let\s+outcome\s*=\s*match\s+name\.as_str\(\)", he)
    exec_arms = []
    if me:
        for names, body in full_arms(block_after(he, me.start())):
            if re.search(r"\bconn_id\b", body): exec_arms += names
    out.append("(* server.rs: dispatch arms of process_normal_command that use the connection id; queued commands that handle_exec\n   runs with the id of the connection that sent EXEC (the others run with the placeholder 0) *)")
    out.append("Definition pnc_arms_using_conn_id : list bytes :=\n  %s." % coq_list(conn_arms))
    out.append("Definition exec_arms_with_conn_id : list bytes :=\n  %s." % coq_list(exec_arms))
    # ---- engine census: marks / expiry / index maintenance per pub fn
    engine = read("src/storage/engine.rs")
    engine_all = engine
    cut = engine.find("/// Verification hooks")
    if cut > 0:
        engine = engine[:cut]
    rows = []
    for m5 in re.finditer(r"\n    pub fn ([a-z_0-9]+)\s*[<(]", engine):
        name = m5.group(1)
        if name.startswith("verif_") or name in ("new", "new_in_memory", "with_config"):
            continue
        try:
            b = block_after(engine, m5.start())
        except ValueError:
            continue
        marks = len(re.findall(r"mark_modified\(", b))
        exp = 1 if "is_expired()" in b else 0
        idx_ins = 1 if re.search(r"expiring_keys\.insert\(", b) else 0
        idx_rem = 1 if re.search(r"expiring_keys\.(remove|clear)\(", b) else 0
        rows.append((name, marks, exp, idx_ins, idx_rem))
    out.append("(* (engine fn, #mark_modified call sites, consults is_expired, inserts into / removes from the deadline index) *)")
    out.append("Definition engine_census : list (bytes * Z * Z * Z * Z) :=\n  [%s]." %
               ";\n   ".join('(bs "%s", %d, %d, %d, %d)' % r for r in rows))
    # watch tracker: which functions (public or not) write the per-key counters, the shard counter, the watcher count
    kc, gc, aw = [], [], []
    for m5 in re.finditer(r"\n\s*(?:pub(?:\([a-z]+\))?\s+)?fn ([a-z_0-9]+)\s*[<(]", engine):
        try:
            b = block_after(engine, m5.start())
        except ValueError:
            continue
        if re.search(r"key_counters\s*\.\s*(write|get_mut|into_inner|try_write)\s*\(", b): kc.append(m5.group(1))
        if re.search(r"global_counter\s*\.\s*(fetch_[a-z]+|store|swap|compare_exchange[a-z_]*)\s*\(", b): gc.append(m5.group(1))
        for mm5 in re.finditer(r"active_watchers\s*\.\s*(fetch_[a-z]+|store|swap|compare_exchange[a-z_]*)\s*\(", b): aw.append((m5.group(1), mm5.group(1)))
    out.append("(* engine.rs ShardWatchTracker: the functions that write key_counters / global_counter, and every write of active_watchers *)")
    out.append("Definition watch_key_counter_writers : list bytes :=\n  %s." % coq_list(kc))
    out.append("Definition watch_global_counter_writers : list bytes :=\n  %s." % coq_list(gc))
    out.append("Definition watch_active_writes : list (bytes * bytes) :=\n  [%s]." % "; ".join('(bs "%s", bs "%s")' % x for x in aw))
    # sweeper: does the delete phase consult the stored deadline?
    sw = fn_body(engine_all, "expiration_cleanup_loop") or ""
    out.append("Definition sweeper_rechecks_stored_deadline : bool := %s." %
               ("true" if re.search(r"is_expired\(\)", sw) else "false"))
    # lazy expiry before dispatch: which commands expire the whole database / all databases first
    lz = fn_body(engine_all, "expire_before_command") or ""
    arms = re.findall(r'((?:"[A-Z]+"\s*\|\s*)*"[A-Z]+")\s*=>\s*\{([^{}]*(?:\{[^{}]*\}[^{}]*)*)\}', lz, re.S)
    ks, alld = [], []
    for pat, body in arms:
        names = strings_in(pat)
        if "databases.len()" in body: alld += names
        elif "expire_due_keys(db)" in body: ks += names
    per_arg = bool(re.search(r"for\s+arg\s+in\s+args\s*\{\s*self\.expire_if_due\(db,\s*arg\);", lz))
    out.append("(* engine.rs expire_before_command: every argument is expired lazily; these commands expire the database / all databases first *)")
    out.append("Definition lazy_expires_every_arg : bool := %s." % ("true" if per_arg else "false"))
    out.append("Definition lazy_keyspace_commands : list bytes :=\n  %s." % coq_list(ks))
    out.append("Definition lazy_alldb_commands : list bytes :=\n  %s." % coq_list(alld))
    pnc = fn_body(server, "process_normal_command") or ""
    hook = pnc.find("expire_before_command")
    disp = pnc.find("let result = match command_name.as_str()")
    out.append("(* server.rs process_normal_command calls expire_before_command before dispatching *)")
    out.append("Definition lazy_expiry_before_dispatch : bool := %s." % ("true" if 0 <= hook < disp else "false"))
    # ---- Lua sandbox
    lua = read("src/storage/lua_engine.rs")
    removed = []
    m6 = re.search(r"for\s+func\s+in\s+&?\[(.*?)\]", lua, re.S)
    if m6: removed = re.findall(r'"([a-z_]+)"', m6.group(1))
    else:
        m6 = re.search(r"(?:let|const)\s+\w*(?:dangerous|blocked|unsafe)\w*\s*(?::[^=]*)?=\s*&?\[(.*?)\]", lua, re.S | re.I)
        if m6: removed = re.findall(r'"([a-z_]+)"', m6.group(1))
    out.append("Definition lua_removed_globals : list bytes :=\n  %s." % coq_list(removed))
    blocked = []
    for m7 in re.finditer(r'((?:"[A-Z]+"\s*\|\s*)*"[A-Z]+")\s*=>\s*\{\s*return\s+Self::handle_command_error_with_context', lua, re.S):
        blocked += strings_in(m7.group(1))
    out.append("Definition lua_blocked : list bytes :=\n  %s." % coq_list(sorted(set(blocked), key=blocked.index)))
    # ---- constants
    parser = read("src/protocol/parser.rs")
    m8 = re.search(r"MAX_NESTING_DEPTH\s*:\s*usize\s*=\s*(\d+)", parser)
    out.append("Definition max_nesting_depth : Z := %s." % (m8.group(1) if m8 else "-1"))
    m9 = re.search(r"SHARDS_PER_DATABASE\s*:\s*usize\s*=\s*(\d+)", engine)
    out.append("Definition shards_per_database : Z := %s." % (m9.group(1) if m9 else "-1"))
    m10 = re.search(r"FNV_OFFSET\s*:\s*u64\s*=\s*0x([0-9a-fA-F]+)", engine)
    m11 = re.search(r"FNV_PRIME\s*:\s*u64\s*=\s*0x([0-9a-fA-F]+)", engine)
    out.append("Definition gen_fnv_offset : Z := %d." % (int(m10.group(1), 16) if m10 else -1))
    out.append("Definition gen_fnv_prime : Z := %d." % (int(m11.group(1), 16) if m11 else -1))
    # ---- recursion depth passed by every aggregate parser to parse_frame_at
    calls = []
    for fn in ("parse_array", "parse_map", "parse_set"):
        b = fn_body(parser, fn) or ""
        for mm in re.finditer(r"parse_frame_at\(([^;]*?),\s*([^,;()]*(?:\([^()]*\))?[^,;()]*)\)\?", b):
            calls.append((fn, " ".join(mm.group(2).split())))
    if not calls: warn.append("no recursive parse_frame_at call found")
    out.append("(* (aggregate parser, depth argument of each recursive parse_frame_at call) *)")
    out.append("Definition parser_depth_args : list (bytes * bytes) :=\n  [%s]." %
               "; ".join('(bs "%s", bs "%s")' % c for c in calls))
    # ---- Connection::flush: the bookkeeping of partial socket writes, as Gallina
    connrs = read("src/network/connection.rs")
    fl = fn_body(connrs, "flush") or ""
    m12 = re.search(r"Ok\(n\)\s*=>\s*\{\s*self\.write_offset\s*(\+=|-=|=)\s*([^;]+);", fl)
    upd = {"+=": "off + n", "=": "n", "-=": "off - n"}.get(m12.group(1), "0") if m12 and m12.group(2).strip() == "n" else "0"
    if not m12: warn.append("flush: offset update not recognised")
    out.append("(* flush: `Ok(n) => { self.write_offset %s %s; ...` *)" % ((m12.group(1), m12.group(2).strip()) if m12 else ("?", "?")))
    out.append("Definition flush_offset_update (off n : nat) : nat := (%s)%%nat." % upd)
    m13 = re.search(r"self\.stream\.write\(&self\.write_buffer\[([^\]]*)\]\)", fl)
    start = m13.group(1).strip() if m13 else "?"
    out.append("(* flush: `self.stream.write(&self.write_buffer[%s])` *)" % start)
    out.append("Definition flush_writes_from (off : nat) : nat := %s." % ("off" if start == "self.write_offset.." else "0" if start == ".." else "S off"))
    done = re.findall(r"if\s+self\.write_offset\s*(>=|==|>)\s*self\.write_buffer\.len\(\)\s*\{\s*(?://[^\n]*\n\s*)*self\.write_buffer\.clear\(\);\s*self\.write_offset\s*=\s*0;", fl)
    ops = {">=": "Nat.leb len off", "==": "Nat.eqb off len", ">": "Nat.ltb len off"}
    out.append("(* flush: `if self.write_offset OP self.write_buffer.len() { clear; offset = 0 }` sites: %s *)" % (", ".join(done) or "none"))
    out.append("Definition flush_clears (off len : nat) : bool := %s." % (ops[done[-1]] if done else "false"))
    out.append("Definition flush_clear_sites : nat := %d." % len(done))
    # ---- RdbEngine::bgsave (C10): the in-progress flag is set before the thread is spawned, and the
    # thread clears it AFTER the match on the save's result (so on success and on failure alike)
    rdb = read("src/storage/rdb.rs")
    bg = fn_body(rdb, "bgsave") or ""
    sp = bg.find("thread::spawn")
    sets_before = bool(re.search(r"\*bgsave\s*=\s*true\s*;", bg[:sp])) if sp >= 0 else False
    clears_after = False
    arms_return = True
    if sp >= 0:
        clo = block_after(bg, sp)                      # the closure body
        mm = re.search(r"match\s+engine\.save\s*\(", clo)
        if mm:
            mblock = block_after(clo, mm.start())
            rest = clo[clo.index(mblock) + len(mblock):]
            # the clearing statement at the closure's top level after the match
            depth, top = 0, []
            for ch in rest:
                if ch == "{": depth += 1
                elif ch == "}": depth -= 1
                elif depth == 0: top.append(ch)
            clears_after = bool(re.search(r"\*bgsave\s*=\s*false\s*;", "".join(top)))
            arms_return = bool(re.search(r"\breturn\b|\bpanic!|\bunwrap\(\)|\?\s*;", mblock))
    if not (sets_before and clears_after and not arms_return): warn.append("bgsave flag discipline not recognised")
    out.append("(* rdb.rs bgsave: `*bgsave = true` before thread::spawn; inside the thread `match engine.save(..) {..}` whose arms\n   neither return nor can panic, followed at the closure's top level by `*bgsave = false` *)")
    out.append("Definition rdb_bgsave_sets_flag_before_spawn : bool := %s." % ("true" if sets_before else "false"))
    out.append("Definition rdb_bgsave_clears_flag_after_match : bool := %s." % ("true" if (clears_after and not arms_return) else "false"))
    # saves are serialised: save() takes the save lock before it opens the temporary file, every
    # caller of write_snapshot is save(), and the temporary file is opened in write_snapshot only
    sv = fn_body(rdb, "save") or ""
    lk = re.search(r"let\s+_[a-z_]*\s*=\s*self\.save_lock\.lock\(\)", sv)
    ws_call = sv.find("self.write_snapshot(")
    callers = [m9.group(1) for m9 in re.finditer(r"\n    (?:pub )?fn ([a-z_0-9]+)\s*[<(]", rdb)
               if "write_snapshot(" in (block_after(rdb, m9.start()) if True else "") and m9.group(1) != "write_snapshot"]
    serial = bool(lk) and 0 <= lk.start() < ws_call and sorted(set(callers)) == ["save"] and "drop(_" not in sv
    gwt = fn_body(engine_all, "get_with_ttl") or ""
    zcopy = bool(re.search(r"Value::SortedSet\(\s*\w+\s*\)\s*=>", gwt)) and "SkipList::new()" in gwt and "range_by_rank" in gwt \
            and gwt.find("shard.read()") >= 0 and gwt.find("shard.read()") < gwt.find("SkipList::new()")
    snap_reads = len(re.findall(r"storage\.(get_with_ttl|get|ttl|get_string|zrange|zrange_by_rank)\s*\(", fn_body(rdb, "write_snapshot") or ""))
    out.append("(* engine.rs get_with_ttl copies the members of a (shared) sorted set while it holds the shard lock; write_snapshot\n   reads each key through exactly one storage call *)")
    out.append("Definition engine_get_with_ttl_copies_zset : bool := %s." % ("true" if zcopy else "false"))
    out.append("Definition rdb_snapshot_reads_per_key : Z := %d." % snap_reads)
    wsb = fn_body(rdb, "write_snapshot") or ""
    afresh = bool(re.search(r"\.create\(true\)", wsb)) and bool(re.search(r"\.truncate\(true\)", wsb)) and "create_new" not in wsb
    out.append("(* rdb.rs write_snapshot opens the temporary file with create(true) and truncate(true), never create_new: whatever a\n   dead process left under that name is overwritten *)")
    out.append("Definition rdb_tmp_opened_afresh : bool := %s." % ("true" if afresh else "false"))
    out.append("(* rdb.rs: save() holds save_lock from before write_snapshot to its end; write_snapshot has no other caller *)")
    out.append("Definition rdb_save_serialised : bool := %s." % ("true" if serial else "false"))
    out.append("Definition rdb_write_snapshot_callers : list bytes :=\n  %s." % coq_list(sorted(set(callers))))
    txt = ("(** GENERATED by tools/gen_tables.py from /repo's current sources - do not edit. *)\n"
           "From Ferrous Require Import Base.Bytes.\nOpen Scope Z_scope.\n\n" + "\n\n".join(out) + "\n")
    path = os.path.join(VERIF, "coq", "Generated.v")
    old = open(path).read() if os.path.exists(path) else None
    if old != txt:
        open(path, "w").write(txt)
    for w in warn:
        print("gen_tables warning:", w)
    return 0

if __name__ == "__main__":
    sys.exit(main())
