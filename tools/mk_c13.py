#!/usr/bin/env python3
"""tools/mk_c13.py '<json history>' [--run] : builds a C13 (blocking pops) case from a compact history and
optionally runs it on the implementation and on the extracted model.
History items:  ["conn", c] (observer, CMD)   ["bconn", c]   ["cmd", c, [args..]]   ["send", c, [[args..], ...]]
                ["recv", c]   ["close", c]   ["sleep"]   ["dump"]"""
import sys, json, os
sys.path.insert(0, os.path.dirname(os.path.abspath(__file__)))
import vlib
def tb(s): return 'b' + (s.encode('latin-1') if isinstance(s, str) else bytes(s)).hex()
def frame(args): return ['i5', 'i%d' % len(args)] + [x for a in args for x in (['i2', 'i%d' % a] if isinstance(a, int) else ['i3', tb(a)])]
def build(hist):
    ops = []
    for h in hist:
        k = h[0]
        if k == 'conn': ops.append([tb('CONN'), 'i%d' % h[1]])
        elif k == 'bconn': ops.append([tb('BCONN'), 'i%d' % h[1]])
        elif k == 'cmd': ops.append([tb('CMD'), 'i%d' % h[1], 'i0'] + frame(h[2]))
        elif k == 'send': ops.append([tb('BSEND'), 'i%d' % h[1], 'i0', 'i%d' % len(h[2])] + [x for f in h[2] for x in frame(f)])
        elif k == 'recv': ops.append([tb('BRECV'), 'i%d' % h[1], 'i0'])
        elif k == 'close': ops.append([tb('BCLOSE'), 'i%d' % h[1], 'i0'])
        elif k == 'sleep': ops.append([tb('BSLEEP'), 'i600'])
        elif k == 'dump': ops.append([tb('BDUMP'), 'i0'])
        else: raise SystemExit('bad item %r' % (h,))
    return [' '.join(o) for o in ops]
if __name__ == '__main__':
    hist = json.loads(sys.argv[1])
    ops = build(hist)
    case = vlib.fmt_case('w', ops)
    if '--run' not in sys.argv:
        print(case); sys.exit(0)
    rc, out = vlib.sh([vlib.harness_bin(), 'run', 'C13'], inp=case)
    _, ops2, outs = vlib.parse_case(out)
    rc, m = vlib.sh([os.path.join(vlib.BUILD, 'ocaml', 'driver'), 'C13', '--emit'], inp=out)
    ml = [l[6:].strip() for l in m.splitlines() if l.startswith('MODEL')]
    print(json.dumps({"ops": ops2, "impl_out": outs}, indent=1))
    for k, (o, r) in enumerate(zip(ops2, outs)):
        mm = ml[k] if k < len(ml) else '?'
        print('#', vlib.tok_pretty(o, 300), '=>', vlib.tok_pretty(r, 300), '' if mm == r.strip() else '   <<< MODEL: ' + vlib.tok_pretty(mm, 300), file=sys.stderr)
