#!/usr/bin/env python3
"""tools/mk_witness.py <Cxx> 'CMD a b c' 'CMD ...' : runs the commands on the implementation
(fresh server) and prints a known_findings.json witness object {"ops": [...], "impl_out": [...]}."""
import sys, os, json
sys.path.insert(0, os.path.dirname(os.path.abspath(__file__)))
import vlib
def tokb(b): return "b" + b.hex()
def op(args):
    t = [tokb(b"CMD"), "i1", "i0", "i5", "i%d" % len(args)]
    for a in args: t += ["i3", tokb(a.encode("latin1"))]
    return " ".join(t)
prop = sys.argv[1]
ops = [tokb(b"CONN") + " i1"] + [op(c.split(" ")) for c in sys.argv[2:]]
rc, o = vlib.sh([vlib.harness_bin(), "run", prop], inp=vlib.fmt_case("kf", ops), timeout=120)
_, ops2, outs = vlib.parse_case(o)
print(json.dumps({"ops": ops2, "impl_out": outs, "readable": [vlib.tok_pretty(x) for x in outs]}))
