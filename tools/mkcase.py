#!/usr/bin/env python3
"""Developer aid: write a TCP case in token format from readable commands.
usage: mkcase.py ID 'ZADD z 1 a' 'ZRANGE z 0 -1' ...   (arguments split on spaces; \\xNN escapes)"""
import sys, codecs
def tokb(b): return "b" + b.hex()
def cmd(args):
    t = ["b434d44", "i1", "i0", "i5", "i%d" % len(args)]
    for a in args:
        t += ["i3", tokb(a)]
    return " ".join(t)
def main():
    cid = sys.argv[1]
    print("CASE", cid)
    print("OP b434f4e4e i1")
    for c in sys.argv[2:]:
        args = [codecs.escape_decode(a.encode())[0] for a in c.split(" ")]
        print("OP", cmd(args))
    print("END")
main()
