#!/usr/bin/env python3
"""tools/mkwitness.py <PROP> <json list of commands>   e.g. '[["SET","","v"],["GET",""]]'
Builds the token ops of a one-connection history, runs them on the implementation through the
harness, and prints a known_findings.json witness snippet (ops + impl_out) plus the model's answers."""
import sys, json, os, subprocess
sys.path.insert(0, os.path.dirname(os.path.abspath(__file__)))
import vlib
def tok_b(s):
    b = s.encode('latin-1') if isinstance(s, str) else bytes(s)
    return 'b' + b.hex()
def cmd(args, conn=1):
    return ' '.join([tok_b('CMD'), 'i%d' % conn, 'i0', 'i5', 'i%d' % len(args)] + ['i3 ' + tok_b(a) for a in args])
prop = sys.argv[1]
cmds = json.loads(sys.argv[2])
conns = sorted({c[0] for c in cmds if isinstance(c, list) and c and isinstance(c[0], int)} or {1})
ops = [tok_b('CONN') + ' i%d' % k for k in conns]
for c in cmds:
    if isinstance(c, dict) and 'sleep' in c: ops.append(tok_b('SLEEP') + ' i%d' % c['sleep'])
    elif isinstance(c, dict) and 'raw' in c: ops.append(c['raw'])
    elif isinstance(c[0], int): ops.append(cmd(c[1:], c[0]))
    else: ops.append(cmd(c))
case = vlib.fmt_case('w', ops)
rc, out = vlib.sh([vlib.harness_bin(), 'run', prop], inp=case)
_, ops2, outs = vlib.parse_case(out)
rc, m = vlib.sh([os.path.join(vlib.BUILD, 'ocaml', 'driver'), prop, '--emit'], inp=out)
print(json.dumps({"ops": ops2, "impl_out": outs}, indent=1))
for o, r in zip(ops2, outs): print('#', vlib.tok_pretty(o), '=>', vlib.tok_pretty(r), file=sys.stderr)
print(m, file=sys.stderr)
