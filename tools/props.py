"""Per-property configuration of ./check."""
TRUSTED_BASE = [
    "Coq 8.16.1 kernel (coqc; coqchk in the thorough tier); vm_compute used in witness lemmas; native_compute not used",
    "no axioms declared by the development; Print Assumptions of every property theorem is recorded below",
    "extraction: Require Extraction + ExtrOcamlBasic only (bool, option, unit, list, prod, sumbool, sumor mapped to OCaml's; Z/positive/N stay inductive; no Extract Constant)",
    "ocaml/driver.ml (token parsing/printing, comparison), OCaml 4.13.1 ocamlopt",
    "harness/ (Rust): generators, canonicalisation, property oracle; tools/vlib.py + check (orchestration)",
    "the correspondence is differential testing: agreement of /repo with the model is sampled, not proved",
]

SRV_TB = ["the TCP runner harness/src/srv.rs + resp.rs (independent RESP client), one fresh server process per history (the harness binary in `serve` mode running ferrous::Server::run)",
          "canonicalisation (identical in srv.rs canon_reply and Model/Server.v canon_reply): errors compared by first word, positive TTL/PTTL by sign, unordered replies sorted",
          "model clock = logical time advanced only by SLEEP ops; histories whose real time drifts > 80 ms from it are discarded"]

PROPS = {
    "C03": {
        "n": {"quick": 300, "thorough": 6000},
        "judge": True,
        "diff_is_failure": True,
        "trivial_outs": set(),
        "rule": "cases = stored witnesses (corpus/C03) + systematic sweeps (every (start, stop) in [-len-2, len+2]^2 for LRANGE/LINDEX/LSET/LTRIM on lists of length <= 3 (thorough: <= 5), LREM for every count around the number of occurrences, SUNION/SINTER/SDIFF over every 1..3-key combination of {missing, set, set, other type}) + random histories of 1..70 commands of the list/set/hash families (plus SET/DEL/EXPIRE/PERSIST/TYPE) on typed colliding key pools, with a malformed share (arity, non-bulk argument, non-integer, wrong type); each history runs against a fresh server process over TCP and ends with a dump (TYPE, LRANGE 0 -1, SMEMBERS, HGETALL, PTTL of every pool key, KEYS *, DBSIZE); one evaluation = one command whose canonical reply (errors by first word, unordered replies sorted) is compared between the server and the extracted Gallina model; SPOP/SRANDMEMBER replies are fed to the model as oracle and checked for admissibility; distinct = distinct (operation, output) pairs",
        "explanation": "theorems: LRANGE/LTRIM window = Redis rule for all lists/start/stop outside the class lrange-stop-underflow (and exact behaviour inside it), LINDEX/LSET addressing, LREM for all counts, failure atomicity of every command, no empty collection stored + unique members/fields after every history, set algebra over all combinations of existing/missing keys, soundness of SPOP/SRANDMEMBER for every admissible oracle choice, HSET/HDEL counts and lookups; refuted: 7 classes (known_findings.json); tie: differential run of the real server against the extracted model + an independent property oracle on the server's outputs (no empty collection visible, no duplicates, random picks are members, LRANGE stop<-len empty)",
        "trusted_base": SRV_TB + ["inputs that crash the unchanged server (LREM isize::MIN, SRANDMEMBER i64::MIN / huge negative count, HINCRBY overflow) are excluded from the random stream and replayed only as known-finding witnesses"],
        "assumptions": ["no key expires during a history (only long TTLs are generated): the engine functions of this family do not check expiry (DESIGN F-02b, property C02)",
                        "commands are executed one at a time by the single command thread"],
    },
    "C01": {
        "n": {"quick": 250, "thorough": 4000},
        "diff_is_failure": True,
        "trivial_outs": {"i1", ""},
        "rule": "histories of 1-60 commands of the string/key catalogue on a 7-key colliding pool (incl. empty key, binary key), arguments from boundary pools (i64/isize/u64 extremes, non-integers, empty/binary values, option combinations, non-bulk arguments), followed by a dump (TYPE/GET/PTTL of every pool key, KEYS *, DBSIZE); one evaluation = one command's canonical reply compared between the live server and the extracted model; non-trivial = any reply other than the connect acknowledgement; distinct = distinct (command, reply) pairs",
        "explanation": "theorems about Model/Strings.v (GETRANGE = Redis rule, INCR family checked arithmetic, failure atomicity of every command but MSET/MGET, MGET view-atomicity, well-formedness over all histories, read-after-write and frame lemmas); tie: differential TCP histories; a disagreement outside the known classes is reported as a failing input because the model is the specification there",
        "trusted_base": SRV_TB,
        "assumptions": ["single client connection per history (C07/C18 cover several)", "uptime below 2^40 s (ttl_limit_ms)"],
    },
    "C20": {
        "n": {"quick": 400, "thorough": 6000},
        "judge": True,
        "trivial_outs": {"i0 i1"},
        "rule": "cases = fixed witnesses + random frame trees (serialize, then parse under every 2-split for short inputs, byte-at-a-time and random cuts) + random and exhaustive-short byte strings over the protocol alphabet; one evaluation = one SER or PARSE operation compared between RespParser/serialize_resp_frame and the extracted Gallina model; non-trivial = the parser produced at least one frame or an error (not just 'need more data'); distinct = distinct (operation, output) pairs",
        "explanation": "theorems: round-trip, chunking independence, totality (no Panic outcome in the model; depth-bounded), reservation bound; tie: differential run of the Rust codec against the extracted model + property oracle on the Rust outputs (round-trip, same result for all chunkings, no panic, allocation bounded by bytes in hand via a counting allocator)",
        "trusted_base": ["oracle: Rust std f64 <-> decimal text (the harness passes parse::<f64>/to_string results to the model as a table)"],
        "assumptions": ["RespParser is driven as the server drives it: feed, then parse until None or Err"],
    },
}
