"""Per-property configuration of ./check."""
TRUSTED_BASE = [
    "Coq 8.16.1 kernel (coqc; coqchk in the thorough tier); vm_compute used in witness lemmas; native_compute not used",
    "no axioms declared by the development; Print Assumptions of every property theorem is recorded below",
    "extraction: Require Extraction + ExtrOcamlBasic only (bool, option, unit, list, prod, sumbool, sumor mapped to OCaml's; Z/positive/N stay inductive; no Extract Constant)",
    "ocaml/driver.ml (token parsing/printing, comparison), OCaml 4.13.1 ocamlopt",
    "harness/ (Rust): generators, canonicalisation, property oracle; tools/vlib.py + check (orchestration)",
    "the correspondence is differential testing: agreement of /repo with the model is sampled, not proved",
]

SRV_TB = ["the TCP runner harness/src/srv.rs + resp.rs (independent RESP client), one fresh server process per history (the harness binary in `serve` mode running ferrous::Server::run)",
          "canonicalisation (identical in srv.rs canon_reply and Model/Server.v canon_reply): errors compared by first word, positive TTL/PTTL by sign, unordered replies sorted",
          "model clock = logical time advanced only by SLEEP ops; histories whose real time drifts > 80 ms from it are discarded"]

PROPS = {
    "C01": {
        "n": {"quick": 250, "thorough": 4000},
        "diff_is_failure": True,
        "trivial_outs": {"i1", ""},
        "rule": "histories of 1-60 commands of the string/key catalogue on a 7-key colliding pool (incl. empty key, binary key), arguments from boundary pools (i64/isize/u64 extremes, non-integers, empty/binary values, option combinations, non-bulk arguments), followed by a dump (TYPE/GET/PTTL of every pool key, KEYS *, DBSIZE); one evaluation = one command's canonical reply compared between the live server and the extracted model; non-trivial = any reply other than the connect acknowledgement; distinct = distinct (command, reply) pairs",
        "explanation": "theorems about Model/Strings.v (GETRANGE = Redis rule, INCR family checked arithmetic, failure atomicity of every command but MSET/MGET, MGET view-atomicity, well-formedness over all histories, read-after-write and frame lemmas); tie: differential TCP histories; a disagreement outside the known classes is reported as a failing input because the model is the specification there",
        "trusted_base": SRV_TB,
        "assumptions": ["single client connection per history (C07/C18 cover several)", "uptime below 2^40 s (ttl_limit_ms)"],
    },
    "C17": {
        "n": {"quick": 60, "thorough": 1500}, "diff_is_failure": True, "trivial_outs": {"i1", ""},
        "rule": "server started with requirepass; (a) every command name found in server.rs (read from /repo at run time) sent with 0-3 arguments and varied letter case on a fresh unauthenticated connection, followed by GET and PING on the same connection and a dataset check from an authenticated control connection; (b) random sequences on two connections of wrong passwords (all prefixes, extensions, case flips, binary), correct AUTH, arity/format errors, data commands, MULTI blocks; one evaluation = one reply compared with the model; distinct = distinct (command, reply) pairs",
        "explanation": "theorems: gate non-interference, exact password, per-connection, generated-table obligations; tie: differential TCP runs",
        "trusted_base": SRV_TB + ["tools/gen_tables.py: extraction of the gate arms, of names tested before the gate and of the pre-gate special cases from server.rs"],
        "assumptions": ["commands that the model does not implement (INFO, CONFIG, CLIENT, ...) are only sent before authentication, where the gate answers uniformly"],
    },
    "C18": {
        "n": {"quick": 120, "thorough": 2500}, "diff_is_failure": True, "trivial_outs": {"i1", ""},
        "rule": "1-3 connections selecting among valid and invalid database indices and running the string/key catalogue directly and inside MULTI/EXEC, FLUSHDB/FLUSHALL, followed by a dump (KEYS *, GET, PTTL of the key pool) of databases 0,1,2,7,15 from a fresh connection; one evaluation = one reply compared with the model",
        "explanation": "theorems: frame property of direct and queued execution, SELECT; tie: differential multi-connection histories",
        "trusted_base": SRV_TB, "assumptions": ["script and blocking-pop paths are covered under C12/C13"],
    },
    "C07": {
        "n": {"quick": 150, "thorough": 3000}, "diff_is_failure": True, "trivial_outs": {"i1", ""},
        "rule": "2-4 connections interleaving MULTI / queued string-family commands (valid, failing at run time, unknown) / EXEC / DISCARD / WATCH / UNWATCH / SELECT / QUIT / disconnects in a deterministic total order, followed by a dump from a fresh connection; one evaluation = one reply (EXEC arrays element-wise) compared with the model",
        "explanation": "theorems: queue inert, EXEC in order with one slot each, same as direct, state cleared; tie: differential interleaved histories",
        "trusted_base": SRV_TB, "assumptions": ["single command thread in the implementation (replication client thread absent: master role only)"],
    },
    "C08": {
        "n": {"quick": 80, "thorough": 2000}, "diff_is_failure": True, "trivial_outs": {"i1", ""},
        "rule": "catalogue: 38 commands (every write of the string/key family plus reads and failing variants) x 4 initial states of the watched key x {other connection on the watched key, same connection, other connection on other keys only} -> WATCH, command, MULTI, SET probe, EXEC, observe nil vs array and the probe; plus random 3-connection histories with WATCH/UNWATCH/MULTI/EXEC/DISCARD/SELECT and writers; one evaluation = one reply compared with the model",
        "explanation": "theorems: tracker soundness/completeness, EXEC abort rule, table obligations over the engine census; tie: exhaustive catalogue + random histories",
        "trusted_base": SRV_TB + ["tools/gen_tables.py: per-function census of mark_modified call sites in engine.rs"],
        "assumptions": ["list/set/hash/zset/stream writers are added to the catalogue as their families are merged"],
    },
    "C20": {
        "n": {"quick": 400, "thorough": 6000},
        "judge": True,
        "trivial_outs": {"i0 i1"},
        "rule": "cases = fixed witnesses + random frame trees (serialize, then parse under every 2-split for short inputs, byte-at-a-time and random cuts) + random and exhaustive-short byte strings over the protocol alphabet; one evaluation = one SER or PARSE operation compared between RespParser/serialize_resp_frame and the extracted Gallina model; non-trivial = the parser produced at least one frame or an error (not just 'need more data'); distinct = distinct (operation, output) pairs",
        "explanation": "theorems: round-trip, chunking independence, totality (no Panic outcome in the model; depth-bounded), reservation bound; tie: differential run of the Rust codec against the extracted model + property oracle on the Rust outputs (round-trip, same result for all chunkings, no panic, allocation bounded by bytes in hand via a counting allocator)",
        "trusted_base": ["oracle: Rust std f64 <-> decimal text (the harness passes parse::<f64>/to_string results to the model as a table)"],
        "assumptions": ["RespParser is driven as the server drives it: feed, then parse until None or Err"],
    },
    "C14": {
        "n": {"quick": 600, "thorough": 8000},
        "judge": True,
        "shards": 8,
        "trivial_outs": {"", "i0"},
        "rule": "cases = fixed witnesses (F-14a, F-05d, F-14b, the unit tests of pubsub.rs) + random multi-connection histories (2-5 connections; SUB/PSUB/UNSUB/PUNSUB named, all and empty; UNSUBALL; PUB; observers) over colliding pools of 10 channels and 20 patterns, each ending with a dump of every connection, every channel count and one publish per channel + the matcher on ALL (pattern, text) pairs over the alphabet {a b * ? \\} up to length 4x4 (quick) / 5x5 (thorough) + random longer pairs with texts derived from the pattern; one evaluation = one PubSubManager call (or one pattern against all texts) compared between ferrous::pubsub and the extracted Gallina model; receiver lists sorted by connection, the reported pattern of a connection with several matching patterns is an oracle checked for admissibility",
        "explanation": "theorems: maps-consistency invariant over all histories, matcher = declarative glob (unbounded), publish delivers to exactly the connections with a matching subscription, once per connection (so the per-subscription claim is refuted: c14_delivery_refuted; partial theorem for at most one matching subscription), acknowledgement counts, nothing after unsubscribe / unsubscribe_all; tie: in-process differential run of PubSubManager + pattern_matches against the extracted model; property oracle (Redis glob semantics, per-subscription deliveries, acknowledgement counts) on the implementation's outputs",
        "trusted_base": ["the server-level delivery of message frames (server.rs handle_publish / handle_subscribe) is not part of this check (lead's server model)"],
        "assumptions": ["PubSubManager is driven sequentially, as the single command thread of the server does"],
    },
    "C19": {
        "n": {"quick": 500, "thorough": 6000},
        "judge": True,
        "needs_server": False,
        "shards": 12,
        "trivial_outs": {"", "i0", "i1 i0"},
        "rule": "cases = the F-19a witness + a 1205-member set (cap 1000, examined bound) + in-process histories on StorageEngine (key spaces of 3-30 keys of all five value types; SCAN with COUNT from {0,1,2,3,4,5,7,10,20,100,1000,1001}, 17 MATCH patterns, 9 TYPE filters, cursors followed from the implementation's reply and odd cursors {len-1,len,len+1,2^63,2^64-1}; additions, deletions and (x- cases) expiries of keys between the calls of an iteration; HSCAN/SSCAN/ZSCAN over collections below and above COUNT, NOVALUES, wrong-type / missing / expired keys, member additions/removals between calls) + command-level histories over TCP (option parsing incl. missing values, bad counts, lower case, non-bulk arguments; cursor parsing; HSCAN/SSCAN/ZSCAN on missing and wrong-type keys), each TCP history ending with SCAN 0 COUNT 1000, KEYS *, DBSIZE; one evaluation = one engine call or one command compared with the extracted Gallina model; unordered fast-path replies sorted",
        "explanation": "theorems: static completeness (a full iteration over an unchanged key space returns exactly the matching live keys, each once), termination measure, soundness, completeness under modifications that sort at or after the position reached, refutation of the unrestricted claim (c19_concurrent_refuted, F-19a); tie: differential run of engine.rs scan/hscan/sscan/zscan and commands/scan.rs against the extracted model; property oracle: every key present throughout a complete iteration is returned (class scan-shift when a key below the position reached was added or deleted), nothing foreign is returned",
        "trusted_base": ["oracle: Rust std f64 Display for ZSCAN scores that are not integers below 2^53 (text taken from the implementation)", "MATCH on keys that are not valid UTF-8 goes through from_utf8_lossy in the implementation; the model matches bytes (generator: ASCII plus isolated invalid bytes)"],
        "assumptions": ["x- cases: real sleeps make short TTLs pass; a key that was given a short TTL is not written again in that case (sweeper timing)"],
    },
}


def gen_tables():
    import subprocess, os, sys
    here = os.path.dirname(os.path.abspath(__file__))
    p = subprocess.run([sys.executable, os.path.join(here, "gen_tables.py")], stdout=subprocess.PIPE, stderr=subprocess.STDOUT, text=True)
    return p.returncode == 0, p.stdout[-500:]
