"""Per-property configuration of ./check."""
TRUSTED_BASE = [
    "Coq 8.16.1 kernel (coqc; coqchk in the thorough tier); vm_compute used in witness lemmas; native_compute not used",
    "no axioms declared by the development; Print Assumptions of every property theorem is recorded below",
    "extraction: Require Extraction + ExtrOcamlBasic only (bool, option, unit, list, prod, sumbool, sumor mapped to OCaml's; Z/positive/N stay inductive; no Extract Constant)",
    "ocaml/driver.ml (token parsing/printing, comparison), OCaml 4.13.1 ocamlopt",
    "harness/ (Rust): generators, canonicalisation, property oracle; tools/vlib.py + check (orchestration)",
    "the correspondence is differential testing: agreement of /repo with the model is sampled, not proved",
]

PROPS = {
    "C20": {
        "n": {"quick": 400, "thorough": 6000},
        "judge": True,
        "trivial_outs": {"i0 i1"},
        "rule": "cases = fixed witnesses + random frame trees (serialize, then parse under every 2-split for short inputs, byte-at-a-time and random cuts) + random and exhaustive-short byte strings over the protocol alphabet; one evaluation = one SER or PARSE operation compared between RespParser/serialize_resp_frame and the extracted Gallina model; non-trivial = the parser produced at least one frame or an error (not just 'need more data'); distinct = distinct (operation, output) pairs",
        "explanation": "theorems: round-trip, chunking independence, totality (no Panic outcome in the model; depth-bounded), reservation bound; tie: differential run of the Rust codec against the extracted model + property oracle on the Rust outputs (round-trip, same result for all chunkings, no panic, allocation bounded by bytes in hand via a counting allocator)",
        "trusted_base": ["oracle: Rust std f64 <-> decimal text (the harness passes parse::<f64>/to_string results to the model as a table)"],
        "assumptions": ["RespParser is driven as the server drives it: feed, then parse until None or Err"],
    },
    "C14": {
        "n": {"quick": 600, "thorough": 8000},
        "judge": True,
        "trivial_outs": {"", "i0"},
        "rule": "cases = fixed witnesses (F-14a, F-05d, F-14b, the unit tests of pubsub.rs) + random multi-connection histories (2-5 connections; SUB/PSUB/UNSUB/PUNSUB named, all and empty; UNSUBALL; PUB; observers) over colliding pools of 10 channels and 20 patterns, each ending with a dump of every connection, every channel count and one publish per channel + the matcher on ALL (pattern, text) pairs over the alphabet {a b * ? \\} up to length 4x4 (quick) / 5x5 (thorough) + random longer pairs with texts derived from the pattern; one evaluation = one PubSubManager call (or one pattern against all texts) compared between ferrous::pubsub and the extracted Gallina model; receiver lists sorted by connection, the reported pattern of a connection with several matching patterns is an oracle checked for admissibility",
        "explanation": "theorems: maps-consistency invariant over all histories, matcher = declarative glob (unbounded), publish delivers to exactly the connections with a matching subscription, once per connection (so the per-subscription claim is refuted: c14_delivery_refuted; partial theorem for at most one matching subscription), acknowledgement counts, nothing after unsubscribe / unsubscribe_all; tie: in-process differential run of PubSubManager + pattern_matches against the extracted model; property oracle (Redis glob semantics, per-subscription deliveries, acknowledgement counts) on the implementation's outputs",
        "trusted_base": ["the server-level delivery of message frames (server.rs handle_publish / handle_subscribe) is not part of this check (lead's server model)"],
        "assumptions": ["PubSubManager is driven sequentially, as the single command thread of the server does"],
    },
    "C19": {
        "n": {"quick": 500, "thorough": 6000},
        "judge": True,
        "needs_server": False,
        "shards": 12,
        "trivial_outs": {"", "i0", "i1 i0"},
        "rule": "cases = the F-19a witness + a 1205-member set (cap 1000, examined bound) + in-process histories on StorageEngine (key spaces of 3-30 keys of all five value types; SCAN with COUNT from {0,1,2,3,4,5,7,10,20,100,1000,1001}, 17 MATCH patterns, 9 TYPE filters, cursors followed from the implementation's reply and odd cursors {len-1,len,len+1,2^63,2^64-1}; additions, deletions and (x- cases) expiries of keys between the calls of an iteration; HSCAN/SSCAN/ZSCAN over collections below and above COUNT, NOVALUES, wrong-type / missing / expired keys, member additions/removals between calls) + command-level histories over TCP (option parsing incl. missing values, bad counts, lower case, non-bulk arguments; cursor parsing; HSCAN/SSCAN/ZSCAN on missing and wrong-type keys), each TCP history ending with SCAN 0 COUNT 1000, KEYS *, DBSIZE; one evaluation = one engine call or one command compared with the extracted Gallina model; unordered fast-path replies sorted",
        "explanation": "theorems: static completeness (a full iteration over an unchanged key space returns exactly the matching live keys, each once), termination measure, soundness, completeness under modifications that sort at or after the position reached, refutation of the unrestricted claim (c19_concurrent_refuted, F-19a); tie: differential run of engine.rs scan/hscan/sscan/zscan and commands/scan.rs against the extracted model; property oracle: every key present throughout a complete iteration is returned (class scan-shift when a key below the position reached was added or deleted), nothing foreign is returned",
        "trusted_base": ["oracle: Rust std f64 Display for ZSCAN scores that are not integers below 2^53 (text taken from the implementation)", "MATCH on keys that are not valid UTF-8 goes through from_utf8_lossy in the implementation; the model matches bytes (generator: ASCII plus isolated invalid bytes)"],
        "assumptions": ["x- cases: real sleeps make short TTLs pass; a key that was given a short TTL is not written again in that case (sweeper timing)"],
    },
}
