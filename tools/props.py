"""Per-property configuration of ./check."""
TRUSTED_BASE = [
    "Coq 8.16.1 kernel (coqc; coqchk in the thorough tier); vm_compute used in witness lemmas; native_compute not used",
    "no axioms declared by the development; Print Assumptions of every property theorem is recorded below",
    "extraction: Require Extraction + ExtrOcamlBasic only (bool, option, unit, list, prod, sumbool, sumor mapped to OCaml's; Z/positive/N stay inductive; no Extract Constant)",
    "ocaml/driver.ml (token parsing/printing, comparison), OCaml 4.13.1 ocamlopt",
    "harness/ (Rust): generators, canonicalisation, property oracle; tools/vlib.py + check (orchestration)",
    "the correspondence is differential testing: agreement of /repo with the model is sampled, not proved",
]

SRV_TB = ["the TCP runner harness/src/srv.rs + resp.rs (independent RESP client), one fresh server process per history (the harness binary in `serve` mode running ferrous::Server::run)",
          "canonicalisation (identical in srv.rs canon_reply and Model/Server.v canon_reply): errors compared by first word, positive TTL/PTTL by sign, unordered replies sorted",
          "model clock = logical time advanced only by SLEEP ops; histories whose real time drifts > 80 ms from it are discarded"]

PROPS = {
    "C04": {
        "n": {"quick": 240, "thorough": 4000},
        "judge": True,
        "diff_is_failure": True,
        "trivial_outs": set(),
        "rule": "cases = stored regression cases (corpus/C04: the witnesses of the repaired classes) + n command histories over TCP (ZADD ZREM ZSCORE ZCARD ZRANK ZREVRANK ZRANGE ZREVRANGE ZRANGEBYSCORE ZREVRANGEBYSCORE ZCOUNT ZINCRBY ZPOPMIN ZPOPMAX mixed with DEL/EXPIRE/PERSIST/RENAME/TYPE/EXISTS on colliding key/member/score pools: ties, re-scoring across neighbours, +-0, +-inf, 2^53+-1, 5e-324, 1.79e308, invalid texts; rank indices and counts at 0, +-1, +-len, +-(len+-1), i64/u64 extremes; malformed share: arity, non-bulk arguments, wrong type; 1 in 12 a NaN history: nan scores, inf + -inf), each on a fresh server and ending with a dump (TYPE, ZRANGE 0 -1 WITHSCORES, ZCARD, PTTL of every pool key, KEYS *, DBSIZE) + 2.5 n in-process histories on SkipList<Vec<u8>,f64> (insert/remove/get_score/get_rank/get_by_rank/range_by_rank/range_by_score; after every mutation the full structure through SkipList::verif_dump(): every level's chain, heights, length, level, key_index, the model being given the height drawn; one third with NaN scores); one evaluation = one command or skip-list operation compared between the implementation and the extracted Gallina model (score replies as f64 bit patterns); distinct = distinct (operation, output) pairs",
        "explanation": "theorems (no input class excluded): the comparator is a total preorder on all bit patterns; tower search = linear scan for every assignment of heights and update-vector splice = derived chains; the skip-list invariant is preserved by insert/remove for all non-NaN scores and ALL heights; refinement to a sorted duplicate-free list (latest score wins); rank = position, rank/range agreement; ZRANGE/ZREVRANGE index translation = Redis' rule for ALL indices; score ranges/ZCOUNT; ZPOPMIN; for every history and EVERY oracle every stored set stays well formed and non-empty, so no NaN is ever stored; NaN scores, increments, sums and bounds are refused; an error reply (a refused multi-member ZADD included) changes nothing; last member removed => key removed in every reachable state; regression examples for the repaired classes; tie: differential run of the real server (TCP) and of SkipList (in process, whole tower structure) against the extracted model + an independent property oracle (reference sorted set with Redis semantics) on the implementation's outputs",
        "trusted_base": SRV_TB + ["oracle: Rust std f64 <-> decimal text (the harness appends the parse::<f64>() bits of every bulk argument to the operation and compares score replies after re-parsing them to bits); the f64 sum of ZINCRBY is taken from the implementation's reply (none when it answered an error); the theorems hold for every value these oracles may report",
                                  "Props/C04.v does not depend on Flocq; the IEEE cross-checks (inf + -inf = NaN, comparison pool) are in Props/C04F64.v and depend on the four standard-library axioms of the reals"],
        "assumptions": ["no key expires during a history (only long TTLs are generated): the engine functions of this family do not check expiry (DESIGN F-02b, property C02)",
                        "histories of sorted-set commands start from the empty database (run_zcmds); other families only create, delete, rename or re-type whole keys"],
    },
    "C03": {
        "n": {"quick": 300, "thorough": 6000},
        "judge": True,
        "diff_is_failure": True,
        "trivial_outs": set(),
        "rule": "cases = stored witnesses (corpus/C03) + systematic sweeps (every (start, stop) in [-len-2, len+2]^2 for LRANGE/LINDEX/LSET/LTRIM on lists of length <= 3 (thorough: <= 5), LREM for every count around the number of occurrences, SUNION/SINTER/SDIFF over every 1..3-key combination of {missing, set, set, other type}) + random histories of 1..70 commands of the list/set/hash families (plus SET/DEL/EXPIRE/PERSIST/TYPE) on typed colliding key pools, with a malformed share (arity, non-bulk argument, non-integer, wrong type); each history runs against a fresh server process over TCP and ends with a dump (TYPE, LRANGE 0 -1, SMEMBERS, HGETALL, PTTL of every pool key, KEYS *, DBSIZE); one evaluation = one command whose canonical reply (errors by first word, unordered replies sorted) is compared between the server and the extracted Gallina model; SPOP/SRANDMEMBER replies are fed to the model as oracle and checked for admissibility; distinct = distinct (operation, output) pairs",
        "explanation": "theorems (all at full strength since the repairs c5f1b6a 61742d6 2b792ef 6f35e51 eab489c 84546fc): LRANGE/LTRIM window = Redis rule for ALL lists/start/stop, LINDEX/LSET addressing, LREM for all counts incl. isize::MIN, failure atomicity of every command, no empty collection stored + unique members/fields after every history (also mixed with the string family), set algebra over all combinations of existing/missing keys with every key type-checked, soundness of SPOP/SRANDMEMBER for every admissible oracle choice, HSET/HDEL counts and lookups, HINCRBY checked arithmetic, no PANIC outcome for any command/argument; tie: differential run of the real server against the extracted model + an independent property oracle on the server's outputs (no empty collection visible, no duplicates, random picks are members, LRANGE stop<-len empty)",
        "trusted_base": SRV_TB + ["SRANDMEMBER with a huge negative count (work proportional to |count|, known finding srandmember-neg-work) is excluded from the random stream; counts down to -100 and i64::MIN are generated"],
        "assumptions": ["no key expires during a history (only long TTLs are generated): the engine functions of this family do not check expiry (DESIGN F-02b, property C02)",
                        "commands are executed one at a time by the single command thread"],
    },
    "C01": {
        "n": {"quick": 250, "thorough": 4000},
        "diff_is_failure": True,
        "trivial_outs": {"i1", ""},
        "rule": "histories of 1-60 commands of the string/key catalogue on a 7-key colliding pool (incl. empty key, binary key), arguments from boundary pools (i64/isize/u64 extremes, non-integers, empty/binary values, option combinations, non-bulk arguments), followed by a dump (TYPE/GET/PTTL of every pool key, KEYS *, DBSIZE); one evaluation = one command's canonical reply compared between the live server and the extracted model; non-trivial = any reply other than the connect acknowledgement; distinct = distinct (command, reply) pairs",
        "explanation": "theorems about Model/Strings.v (GETRANGE = Redis rule, INCR family checked arithmetic, failure atomicity of every command but MSET/MGET, MGET view-atomicity, well-formedness over all histories, read-after-write and frame lemmas); tie: differential TCP histories; a disagreement outside the known classes is reported as a failing input because the model is the specification there",
        "trusted_base": SRV_TB,
        "assumptions": ["single client connection per history (C07/C18 cover several)", "uptime below 2^40 s (ttl_limit_ms)"],
    },
    "C17": {
        "n": {"quick": 60, "thorough": 1500}, "diff_is_failure": True, "trivial_outs": {"i1", ""},
        "rule": "server started with requirepass; (a) every command name found in server.rs (read from /repo at run time) sent with 0-3 arguments and varied letter case on a fresh unauthenticated connection, followed by GET and PING on the same connection and a dataset check from an authenticated control connection; (b) random sequences on two connections of wrong passwords (all prefixes, extensions, case flips, binary), correct AUTH, arity/format errors, data commands, MULTI blocks; one evaluation = one reply compared with the model; distinct = distinct (command, reply) pairs",
        "explanation": "theorems: gate non-interference, exact password, per-connection, generated-table obligations; tie: differential TCP runs",
        "trusted_base": SRV_TB + ["tools/gen_tables.py: extraction of the gate arms, of names tested before the gate and of the pre-gate special cases from server.rs"],
        "assumptions": ["commands that the model does not implement (INFO, CONFIG, CLIENT, ...) are only sent before authentication, where the gate answers uniformly"],
    },
    "C18": {
        "n": {"quick": 120, "thorough": 2500}, "diff_is_failure": True, "trivial_outs": {"i1", ""},
        "rule": "1-3 connections selecting among valid and invalid database indices and running the string/key catalogue directly and inside MULTI/EXEC, FLUSHDB/FLUSHALL, followed by a dump (KEYS *, GET, PTTL of the key pool) of databases 0,1,2,7,15 from a fresh connection; one evaluation = one reply compared with the model",
        "explanation": "theorems: frame property of direct and queued execution, SELECT; tie: differential multi-connection histories",
        "trusted_base": SRV_TB, "assumptions": ["script and blocking-pop paths are covered under C12/C13"],
    },
    "C07": {
        "n": {"quick": 150, "thorough": 3000}, "diff_is_failure": True, "trivial_outs": {"i1", ""},
        "rule": "2-4 connections interleaving MULTI / queued string-family commands (valid, failing at run time, unknown) / EXEC / DISCARD / WATCH / UNWATCH / SELECT / QUIT / disconnects in a deterministic total order, followed by a dump from a fresh connection; one evaluation = one reply (EXEC arrays element-wise) compared with the model",
        "explanation": "theorems: queue inert, EXEC in order with one slot each, same as direct, state cleared; tie: differential interleaved histories",
        "trusted_base": SRV_TB, "assumptions": ["single command thread in the implementation (replication client thread absent: master role only)"],
    },
    "C08": {
        "n": {"quick": 80, "thorough": 2000}, "diff_is_failure": True, "trivial_outs": {"i1", ""},
        "rule": "catalogue: 99 commands (every write of the string/key family and of the list/set/hash families, incl. the ones that mark without changing anything (LTRIM 0 -1, HDEL of a missing field, HSET of the same value) and the ones that change nothing and must not mark (LREM/SREM of an absent element, SPOP 0, refused HINCRBY/LSET), plus reads and failing variants) x 10 initial states of the watched key (missing, 3 strings, list/set/hash with one and with several elements, some with a deadline) x {other connection on the watched key, same connection, other connection on other keys only} -> WATCH, command, MULTI, SET probe, EXEC, observe nil vs array and the probe; plus random 3-connection histories with WATCH/UNWATCH/MULTI/EXEC/DISCARD/SELECT and writers; one evaluation = one reply compared with the model",
        "explanation": "theorems: tracker soundness/completeness, EXEC abort rule, table obligations over the engine census; tie: exhaustive catalogue + random histories",
        "trusted_base": SRV_TB + ["tools/gen_tables.py: per-function census of mark_modified call sites in engine.rs"],
        "assumptions": ["zset/stream writers are added to the catalogue as their families are merged", "SPOP/SRANDMEMBER appear in the catalogue outside MULTI only (the runner has no oracle for queued commands)"],
    },
    "C02": {
        "n": {"quick": 40, "thorough": 600}, "diff_is_failure": True, "judge": True, "trivial_outs": {"i1", ""}, "run_timeout": 2400,
        "rule": "sweeper paused through the VERIF hook; (a) random histories of TTL setters (PX 200/400, EX 1, SETEX, PSETEX, EXPIRE, PEXPIRE incl. <= 0), overwrites, PERSIST, RENAME, in-place modifications and reads on 4 keys (two sharing an engine shard), SLEEP 300 steps of the logical clock and full sweeper passes started at known instants, ending with a dump (VERIF INDEX 0 = key/stored deadline/indexed deadline/present, EXISTS/PTTL/GET); (b) for each of 13 racing commands x {TTL still set, TTL already cleared}: SET t PX 200, sleep, sweeper stopped between its scan and its deletions, the racing command, release, dump, another pass, dump; (c) list/set/hash keys (C03 family): their commands and EXPIRE/PEXPIRE/PERSIST on cl/cs/ch inside the random histories (LPUSH/SADD/HSET/pops/reads after the deadline with the sweeper paused: no lazy expiry), and the scan/delete window for 23 racing command sequences x {deadline still set, collection drained and re-created so that only a stale index entry remains}; collection keys are dumped by TYPE/PTTL/LRANGE/SMEMBERS/HGETALL; one evaluation = one reply or dump compared with the model; distinct = distinct (command, reply) pairs",
        "explanation": "theorems: never-early over all interleavings of the two sweeper phases with client commands, sweeper only removes, sweep completeness, lazy expiry of GET/EXISTS, TTL bookkeeping, TTL/PTTL replies; tie: stepped/gated real sweeper on a logical clock",
        "trusted_base": SRV_TB + ["the VERIF hook (cfg ferrous_verif): sweeper PAUSE/STEP/GATE/RELEASE/WAITING/PASSES and INDEX dump"],
        "assumptions": ["zset/stream keys are covered as their families are merged", "the clock itself and the sweeper's 1 s period are not modelled (theorems hold for any period)"],
    },
    "C05": {
        "n": {"quick": 60, "thorough": 1200}, "diff_is_failure": True, "trivial_outs": {"i1", ""}, "run_timeout": 2400,
        "rule": "(1) the reply path under partial writes: BIG histories - SET of a 64 KiB / 4 KiB value containing every byte value, CR LF and reply look-alikes at position-dependent places, then 128 / 2000 GETs and a PING in one write to a client that starts reading 60 ms later: 8 MiB of replies, more than the socket takes in one write, so flush sees partial writes and a full socket; every bulk reply compared by length and position-sensitive checksum with the model's; (2) raw byte streams on one connection: 1-12 (sometimes 150-250) requests per write drawn from the string/key catalogue plus hostile shapes (CR LF inside command names and arguments, fake replies inside names, empty/null arrays, non-array frames, inline PING, nested arrays, 600-byte noise arguments), optionally followed by QUIT or by one of 8 protocol violations, sent whole / byte-at-a-time / cut inside CR LF / 2-6 random cuts; the harness collects everything the server sends until quiet, decodes it with its own RESP reader and compares the canonical frame sequence and the close flag with the model; then PING on the same and on another connection",
        "explanation": "theorems: one reply per frame, reads compose, segmentation independence, reply = one frame, client decodes exactly the replies; below the serialiser: for every interleaving of sends and flushes and every sequence of socket answers (partial writes, full socket, interruptions) wire ++ pending = sent, a full socket is not an error (flush arithmetic regenerated from connection.rs by the translator); tie: raw-stream and large-reply differential runs",
        "trusted_base": SRV_TB, "assumptions": ["requests contain no RESP3 double frames (f64 text oracle not used at connection level)", "a read never exceeds 8192 bytes in the implementation; pipelines with QUIT or a protocol violation are kept below that"],
    },
    "C06": {
        "n": {"quick": 2400, "thorough": 60000}, "diff_is_failure": True, "judge": True, "trivial_outs": set(), "shrink": True,
        "rule": "servers pre-loaded with a sentinel and one key of every type (string, integer, empty string, list, set, hash, sorted set incl. inf score, stream incl. an ID near u64::MAX with a group, 1000-element list); each probe is either a command: a name drawn from the dispatch table read from server.rs at run time, with 0-5 arguments drawn from keys of every type, 27 boundary numbers (0, +-1, i64/u64/usize/isize min/max and their neighbours, +-2^31, 2^32, 1e300, nan, inf, -0, empty, non-digits, 512 MB), option words, non-bulk and nested-array arguments; or raw hostile bytes (absurd declared lengths for * % ~ $; 60000-100000 levels of nesting through every recursive position of the parser: array element, set member, map key, map value after a scalar key, and random mixtures; truncated frames, random bytes; one fixed case runs every hostile family whatever the seed); after every probe a fresh connection must get PONG and the sentinel value within 4 s and the process must be alive; one evaluation = one probe; non-trivial/distinct = distinct probes (all are counted: every probe is followed by the liveness oracle)",
        "explanation": "theorems: guards imply in-range operations for the modelled handlers and the parser; tie: boundary enumeration with a liveness oracle against a live server process",
        "trusted_base": ["the liveness oracle of harness/src/c06.rs (PING + GET sentinel on a fresh connection, process status)"],
        "assumptions": ["deadlock, lock poisoning, starvation and physical memory exhaustion are outside what the model can exhibit (partial)", "SRANDMEMBER with a huge negative count performs |count| iterations (known finding, work not bounded)"],
    },
    "C20": {
        "n": {"quick": 400, "thorough": 6000},
        "judge": True,
        "trivial_outs": {"i0 i1"},
        "rule": "cases = fixed witnesses + random frame trees (serialize, then parse under every 2-split for short inputs, byte-at-a-time and random cuts) + random and exhaustive-short byte strings over the protocol alphabet; one evaluation = one SER or PARSE operation compared between RespParser/serialize_resp_frame and the extracted Gallina model; non-trivial = the parser produced at least one frame or an error (not just 'need more data'); distinct = distinct (operation, output) pairs",
        "explanation": "theorems: round-trip, chunking independence, totality (no Panic outcome in the model; depth-bounded), reservation bound; tie: differential run of the Rust codec against the extracted model + property oracle on the Rust outputs (round-trip, same result for all chunkings, no panic, allocation bounded by bytes in hand via a counting allocator)",
        "trusted_base": ["oracle: Rust std f64 <-> decimal text (the harness passes parse::<f64>/to_string results to the model as a table)"],
        "assumptions": ["RespParser is driven as the server drives it: feed, then parse until None or Err"],
    },
    "C14": {
        "n": {"quick": 600, "thorough": 8000},
        "judge": True,
        "shards": 8,
        "trivial_outs": {"", "i0"},
        "rule": "cases = (1) in-process PubSubManager: fixed witnesses + random multi-connection histories (2-5 connections; SUB/PSUB/UNSUB/PUNSUB named, all and empty; UNSUBALL; PUB; observers) over colliding pools of 10 channels and 20 patterns, each ending with a dump + the matcher on ALL (pattern, text) pairs over {a b * ? \\} up to 4x4 (quick) / 5x5 (thorough) + random longer pairs; (2) server level over TCP (n/6 histories): 2-4 clients, overlapping channels/patterns incl. binary names, SUBSCRIBE/PSUBSCRIBE/UNSUBSCRIBE/PUNSUBSCRIBE (named, all, nothing subscribed, malformed), PUBLISH with unique binary payloads from subscribers and non-subscribers, ordinary commands on subscribed connections, disconnects (client close, mostly while subscribed, followed by a two-round-trip barrier) and QUIT of subscribers, reconnects; every third history also requests on dead ids, pipelined batches through RAW (replies owed before SUBSCRIBE; PUBLISH that reaches the publisher itself) and MULTI with an immediate PUBLISH/SUBSCRIBE; SUBCMD sends the request plus an ECHO marker in one write and collects every frame up to the marker, DRAIN collects pending pushed frames; each history ends by draining every client and one PUBLISH per channel; one evaluation = one manager call / one request with all frames the connection received, compared with the extracted Gallina model (runs of pmessage frames of one publish sorted by pattern; names of an unsubscribe-all sorted)",
        "explanation": "theorems: manager - maps-consistency invariant over all histories, matcher = declarative glob (unbounded), PUBLISH receiver list = exactly the (connection, matching subscription) pairs each once (c14_delivery), acknowledgement counts, nothing after unsubscribe / unsubscribe_all; server - invariant along all histories of requests/connects/closes/drops, a PUBLISH writes one frame per receiver entry and replies their number, per-subscriber streams grow in event order and other requests write only to their issuer (c14_order*), pushed frames decode byte-for-byte (c14_payload_intact), (P)SUBSCRIBE confirmations carry the manager's counts, (P)UNSUBSCRIBE always confirms, nothing is written to a connection after any disconnect (close, QUIT, protocol error, drop). Tie: differential runs against the extracted model at both levels + property oracles on the implementation's outputs (acknowledgement counts, per-subscriber sequence = publish order of matching messages with bytes intact, PUBLISH reply = number of deliveries)",
        "trusted_base": ["TCP level: the marker technique assumes the server answers the request and the ECHO marker in request order (C05)"],
        "assumptions": ["PubSubManager is driven sequentially, as the single command thread of the server does", "TCP histories are sequential (one request in flight); after a client closes its socket two round trips on another connection precede the next request (the server must have read the EOF)"],
    },
    "C19": {
        "n": {"quick": 500, "thorough": 6000},
        "judge": True,
        "needs_server": False,
        "shards": 12,
        "trivial_outs": {"", "i0", "i1 i0"},
        "rule": "cases = the F-19a witness + a 1205-member set (cap 1000, examined bound) + in-process histories on StorageEngine (key spaces of 3-30 keys of all five value types; SCAN with COUNT from {0,1,2,3,4,5,7,10,20,100,1000,1001}, 17 MATCH patterns, 9 TYPE filters, cursors followed from the implementation's reply and odd cursors {len-1,len,len+1,2^63,2^64-1}; additions, deletions and (x- cases) expiries of keys between the calls of an iteration; HSCAN/SSCAN/ZSCAN over collections below and above COUNT, NOVALUES, wrong-type / missing / expired keys, member additions/removals between calls) + command-level histories over TCP (option parsing incl. missing values, bad counts, lower case, non-bulk arguments; cursor parsing; HSCAN/SSCAN/ZSCAN on missing and wrong-type keys), each TCP history ending with SCAN 0 COUNT 1000, KEYS *, DBSIZE; one evaluation = one engine call or one command compared with the extracted Gallina model; unordered fast-path replies sorted",
        "explanation": "theorems: static completeness (a full iteration over an unchanged key space returns exactly the matching live keys, each once), termination measure, soundness, completeness under modifications that sort at or after the position reached, refutation of the unrestricted claim (c19_concurrent_refuted, F-19a); tie: differential run of engine.rs scan/hscan/sscan/zscan and commands/scan.rs against the extracted model; property oracle: every key present throughout a complete iteration is returned (class scan-shift when a key below the position reached was added or deleted), nothing foreign is returned",
        "trusted_base": ["oracle: Rust std f64 Display for ZSCAN scores that are not integers below 2^53 (text taken from the implementation)", "MATCH on keys that are not valid UTF-8 goes through from_utf8_lossy in the implementation; the model matches bytes (generator: ASCII plus isolated invalid bytes)"],
        "assumptions": ["x- cases: real sleeps make short TTLs pass; a key that was given a short TTL is not written again in that case (sweeper timing)"],
    },
    "C15": {
        "n": {"quick": 400, "thorough": 5000},
        "judge": True, "diff_is_failure": True, "needs_server": False, "shards": 8,
        "trivial_outs": set(),
        "rule": "cases = histories of XADD (auto IDs with bursts, explicit ascending / equal / smaller / future / malformed IDs), XDEL, XTRIM, XRANGE/XREVRANGE/XREAD with bounds below, inside, between and above the stored IDs with and without COUNT, XLEN, DEL/RENAME, arity and non-bulk errors, on 4 stream keys + a string key, each ending with a dump (TYPE, XLEN, XRANGE - +, XINFO, XPENDING per group, KEYS, DBSIZE); one evaluation = one command's canonical reply compared between the ferrous server (fresh process per history, TCP) and the extracted Gallina model; the ID of XADD * is passed to the model as an oracle and checked for admissibility",
        "explanation": "theorems: stream invariant (sorted, ids <= last_id, atomics and length counter agree) over all histories; auto IDs exceed every earlier ID for every clock reading; refused XADD changes nothing; XRANGE/XREVRANGE/XREAD equal the filter of the present entries for all bounds (after the repair dc07967); XADD * rolls over / is refused only when no greater ID exists (fb507d0); XLEN = number of present entries; tie: differential run against the server + property oracle (BTreeMap reference driven by the implementation's replies)",
        "trusted_base": ["oracle: the wall-clock reading behind XADD * (the model accepts exactly the IDs some clock reading can produce)"],
        "assumptions": ["std's binary_search contract on a sorted duplicate-free Vec (sortedness is a proved invariant of the model)", "single command thread: compare_exchange_weak on the ID atomics never fails spuriously"],
    },
    "C16": {
        "n": {"quick": 400, "thorough": 5000},
        "judge": True, "diff_is_failure": True, "needs_server": False, "shards": 8,
        "trivial_outs": set(),
        "rule": "cases = histories over 2 streams x 2 groups x 3 consumers: XGROUP CREATE/DESTROY/SETID/CREATECONSUMER/DELCONSUMER, XREADGROUP (> and explicit IDs, COUNT, NOACK, BLOCK, several keys), XACK (repeated, unknown IDs), XCLAIM (idle thresholds 0 / 200 ms / never, FORCE, JUSTID), XPENDING (summary, ranges, per consumer), XINFO, XADD/XDEL/XTRIM/DEL/RENAME in between, 450 ms sleeps for the idle thresholds, each ending with a dump of every group's pending state; one evaluation = one command's canonical reply compared between the ferrous server and the extracted Gallina model (idle times zeroed on both sides)",
        "explanation": "theorems: the four representations of the pending set agree over all histories of >-reads, XACK, XCLAIM, DELCONSUMER, CREATECONSUMER, DESTROY; > delivers in strictly increasing ID order, each entry once; XACK counts once; XPENDING summary equals the pending set; for every start position incl. $ and with NOACK (repairs 542e5a3, 18325a2); XPENDING total on inverted ranges (8b811fd); XGROUP CREATE failure atomicity (7f9490b); still refuted: explicit-ID read, SETID re-delivery, partial failure of a multi-key XREADGROUP",
        "trusted_base": ["idle times are compared through thresholds separated from the harness clock drift (80 ms) by 450 ms sleeps"],
        "assumptions": ["single command thread (no concurrent access to a group)"],
    },
}


def gen_tables():
    import subprocess, os, sys
    here = os.path.dirname(os.path.abspath(__file__))
    p = subprocess.run([sys.executable, os.path.join(here, "gen_tables.py")], stdout=subprocess.PIPE, stderr=subprocess.STDOUT, text=True)
    return p.returncode == 0, p.stdout[-500:]
