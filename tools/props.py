"""Per-property configuration of ./check."""
TRUSTED_BASE = [
    "Coq 8.16.1 kernel (coqc; coqchk in the thorough tier); vm_compute used in witness lemmas; native_compute not used",
    "no axioms declared by the development; Print Assumptions of every property theorem is recorded below",
    "extraction: Require Extraction + ExtrOcamlBasic only (bool, option, unit, list, prod, sumbool, sumor mapped to OCaml's; Z/positive/N stay inductive; no Extract Constant)",
    "ocaml/driver.ml (token parsing/printing, comparison), OCaml 4.13.1 ocamlopt",
    "harness/ (Rust): generators, canonicalisation, property oracle; tools/vlib.py + check (orchestration)",
    "the correspondence is differential testing: agreement of /repo with the model is sampled, not proved",
]

PROPS = {
    "C04": {
        "n": {"quick": 240, "thorough": 4000},
        "judge": True,
        "needs_server": False,
        "trivial_outs": set(),
        "rule": "cases = n command histories over TCP (ZADD ZREM ZSCORE ZCARD ZRANK ZREVRANK ZRANGE ZREVRANGE ZRANGEBYSCORE ZREVRANGEBYSCORE ZCOUNT ZINCRBY ZPOPMIN ZPOPMAX mixed with DEL/EXPIRE/RENAME/TYPE on a colliding key/member/score pool, 1 in 12 a NaN history, each ending with a dump of every pool key) + 2.5 n in-process histories on SkipList<Vec<u8>,f64> (insert/remove/get_rank/get_by_rank/range_by_rank/range_by_score, state dump after every mutation; one third with NaN scores); one evaluation = one command or skip-list operation compared between the implementation and the extracted Gallina model; distinct = distinct (operation, output) pairs",
        "explanation": "theorems: comparator is a total preorder, tower search = linear search for all heights, skip-list invariant preserved by insert/remove for all non-NaN scores and all heights, refinement to a sorted duplicate-free list, rank/range agreement, ZRANGE/ZREVRANGE index translation = Redis rule outside the recorded classes, last member removed => key removed; tie: differential run of the server (TCP) and of SkipList (in process) against the extracted model + property oracle on the implementation's outputs",
        "trusted_base": ["oracle: Rust std f64 <-> decimal text (the harness passes parse::<f64>() bits of every score-like argument to the model and compares score replies after re-parsing them to bits); the f64 sum of ZINCRBY is taken from the implementation's reply"],
        "assumptions": ["no stored score is NaN (class zset-nan is a recorded finding; NaN states are modelled exactly only at the skip-list level)"],
    },
    "C20": {
        "n": {"quick": 400, "thorough": 6000},
        "judge": True,
        "trivial_outs": {"i0 i1"},
        "rule": "cases = fixed witnesses + random frame trees (serialize, then parse under every 2-split for short inputs, byte-at-a-time and random cuts) + random and exhaustive-short byte strings over the protocol alphabet; one evaluation = one SER or PARSE operation compared between RespParser/serialize_resp_frame and the extracted Gallina model; non-trivial = the parser produced at least one frame or an error (not just 'need more data'); distinct = distinct (operation, output) pairs",
        "explanation": "theorems: round-trip, chunking independence, totality (no Panic outcome in the model; depth-bounded), reservation bound; tie: differential run of the Rust codec against the extracted model + property oracle on the Rust outputs (round-trip, same result for all chunkings, no panic, allocation bounded by bytes in hand via a counting allocator)",
        "trusted_base": ["oracle: Rust std f64 <-> decimal text (the harness passes parse::<f64>/to_string results to the model as a table)"],
        "assumptions": ["RespParser is driven as the server drives it: feed, then parse until None or Err"],
    },
}
