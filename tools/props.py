"""Per-property configuration of ./check."""
TRUSTED_BASE = [
    "Coq 8.16.1 kernel (coqc; coqchk in the thorough tier); vm_compute used in witness lemmas; native_compute not used",
    "no axioms declared by the development; Print Assumptions of every property theorem is recorded below",
    "extraction: Require Extraction + ExtrOcamlBasic only (bool, option, unit, list, prod, sumbool, sumor mapped to OCaml's; Z/positive/N stay inductive; no Extract Constant)",
    "ocaml/driver.ml (token parsing/printing, comparison), OCaml 4.13.1 ocamlopt",
    "harness/ (Rust): generators, canonicalisation, property oracle; tools/vlib.py + check (orchestration)",
    "the correspondence is differential testing: agreement of /repo with the model is sampled, not proved",
]

SRV_TB = ["the TCP runner harness/src/srv.rs + resp.rs (independent RESP client), one fresh server process per history (the harness binary in `serve` mode running ferrous::Server::run)",
          "canonicalisation (identical in srv.rs canon_reply and Model/Server.v canon_reply): errors compared by first word, positive TTL/PTTL by sign, unordered replies sorted",
          "model clock = logical time advanced only by SLEEP ops; histories whose real time drifts > 80 ms from it are discarded"]

PROPS = {
    "C03": {
        "n": {"quick": 300, "thorough": 6000},
        "judge": True,
        "diff_is_failure": True,
        "trivial_outs": set(),
        "rule": "cases = stored witnesses (corpus/C03) + systematic sweeps (every (start, stop) in [-len-2, len+2]^2 for LRANGE/LINDEX/LSET/LTRIM on lists of length <= 3 (thorough: <= 5), LREM for every count around the number of occurrences, SUNION/SINTER/SDIFF over every 1..3-key combination of {missing, set, set, other type}) + random histories of 1..70 commands of the list/set/hash families (plus SET/DEL/EXPIRE/PERSIST/TYPE) on typed colliding key pools, with a malformed share (arity, non-bulk argument, non-integer, wrong type); each history runs against a fresh server process over TCP and ends with a dump (TYPE, LRANGE 0 -1, SMEMBERS, HGETALL, PTTL of every pool key, KEYS *, DBSIZE); one evaluation = one command whose canonical reply (errors by first word, unordered replies sorted) is compared between the server and the extracted Gallina model; SPOP/SRANDMEMBER replies are fed to the model as oracle and checked for admissibility; distinct = distinct (operation, output) pairs",
        "explanation": "theorems: LRANGE/LTRIM window = Redis rule for all lists/start/stop outside the class lrange-stop-underflow (and exact behaviour inside it), LINDEX/LSET addressing, LREM for all counts, failure atomicity of every command, no empty collection stored + unique members/fields after every history, set algebra over all combinations of existing/missing keys, soundness of SPOP/SRANDMEMBER for every admissible oracle choice, HSET/HDEL counts and lookups; refuted: 7 classes (known_findings.json); tie: differential run of the real server against the extracted model + an independent property oracle on the server's outputs (no empty collection visible, no duplicates, random picks are members, LRANGE stop<-len empty)",
        "trusted_base": SRV_TB + ["inputs that crash the unchanged server (LREM isize::MIN, SRANDMEMBER i64::MIN / huge negative count, HINCRBY overflow) are excluded from the random stream and replayed only as known-finding witnesses"],
        "assumptions": ["no key expires during a history (only long TTLs are generated): the engine functions of this family do not check expiry (DESIGN F-02b, property C02)",
                        "commands are executed one at a time by the single command thread"],
    },
    "C01": {
        "n": {"quick": 250, "thorough": 4000},
        "diff_is_failure": True,
        "trivial_outs": {"i1", ""},
        "rule": "histories of 1-60 commands of the string/key catalogue on a 7-key colliding pool (incl. empty key, binary key), arguments from boundary pools (i64/isize/u64 extremes, non-integers, empty/binary values, option combinations, non-bulk arguments), followed by a dump (TYPE/GET/PTTL of every pool key, KEYS *, DBSIZE); one evaluation = one command's canonical reply compared between the live server and the extracted model; non-trivial = any reply other than the connect acknowledgement; distinct = distinct (command, reply) pairs",
        "explanation": "theorems about Model/Strings.v (GETRANGE = Redis rule, INCR family checked arithmetic, failure atomicity of every command but MSET/MGET, MGET view-atomicity, well-formedness over all histories, read-after-write and frame lemmas); tie: differential TCP histories; a disagreement outside the known classes is reported as a failing input because the model is the specification there",
        "trusted_base": SRV_TB,
        "assumptions": ["single client connection per history (C07/C18 cover several)", "uptime below 2^40 s (ttl_limit_ms)"],
    },
    "C17": {
        "n": {"quick": 60, "thorough": 1500}, "diff_is_failure": True, "trivial_outs": {"i1", ""},
        "rule": "server started with requirepass; (a) every command name found in server.rs (read from /repo at run time) sent with 0-3 arguments and varied letter case on a fresh unauthenticated connection, followed by GET and PING on the same connection and a dataset check from an authenticated control connection; (b) random sequences on two connections of wrong passwords (all prefixes, extensions, case flips, binary), correct AUTH, arity/format errors, data commands, MULTI blocks; one evaluation = one reply compared with the model; distinct = distinct (command, reply) pairs",
        "explanation": "theorems: gate non-interference, exact password, per-connection, generated-table obligations; tie: differential TCP runs",
        "trusted_base": SRV_TB + ["tools/gen_tables.py: extraction of the gate arms, of names tested before the gate and of the pre-gate special cases from server.rs"],
        "assumptions": ["commands that the model does not implement (INFO, CONFIG, CLIENT, ...) are only sent before authentication, where the gate answers uniformly"],
    },
    "C18": {
        "n": {"quick": 120, "thorough": 2500}, "diff_is_failure": True, "trivial_outs": {"i1", ""},
        "rule": "1-3 connections selecting among valid and invalid database indices and running the string/key catalogue directly and inside MULTI/EXEC, FLUSHDB/FLUSHALL, followed by a dump (KEYS *, GET, PTTL of the key pool) of databases 0,1,2,7,15 from a fresh connection; one evaluation = one reply compared with the model",
        "explanation": "theorems: frame property of direct and queued execution, SELECT; tie: differential multi-connection histories",
        "trusted_base": SRV_TB, "assumptions": ["script and blocking-pop paths are covered under C12/C13"],
    },
    "C11": {
        "n": {"quick": 150, "thorough": 2500},
        "judge": True, "diff_is_failure": True, "needs_server": False, "shards": 8, "run_timeout": 2400,
        "trivial_outs": {"i1", ""},
        "rule": "every history runs against a fresh server started with appendonly yes in its own scratch directory (sweeper stopped through the VERIF hook); cases = (1) the table tie: every command name of server.rs's dispatch table (read from /repo at run time, minus names that end or hijack the process/connection) sent once, then the file compared byte for byte with the model's log (ties Generated.write_commands to behaviour); (2) 11 fixed witnesses (one per modelled class + a MULTI/EXEC/DISCARD history); (3) random histories of 4-75 commands on 1-2 connections over the string/key family (c01 generator), lists/sets/hashes (c03 generator) and streams/groups, sent directly or queued under MULTI and run by EXEC / dropped by DISCARD / aborted by WATCH, with arity errors, wrong types, non-bulk arguments: two thirds 'clean' (logged deterministic catalogue, database 0, long TTLs = the domain of theorem c11_replay), one third 'dirty' (also SELECT, GETSET, HMSET, PEXPIRE, XREADGROUP, SPOP, XADD *, zero TTLs); every history ends with AOFREAD (file bytes + the frames the harness's own RESP reader decodes) and AOFREPLAY (the decoded commands are re-sent to a second fresh server; a 177-request dump - TYPE/PTTL/GET/LRANGE/SMEMBERS/HGETALL/XRANGE of 25 keys, XINFO/XPENDING of the stream keys, KEYS/DBSIZE of databases 0 and 1 - is run on both servers), one history in five also with AOFRESTART (kill, restart on the same directory, dump); one evaluation = one command reply, one file image, one replay (replies of the second server + both dumps) or one restart compared with the extracted Gallina model (replay = fold of normal_command on the empty server; SPOP / XADD * outcomes of the second server are oracles checked for admissibility)",
        "explanation": "theorems: the file decodes to exactly the logged commands and every append is one whole frame (from the C20 round trip); a command is logged once, before dispatch, iff its name is in the generated table, EXEC logs its queue in order; completeness obligation over Generated.write_commands: every modelled command not in the table is inert up to lazy expiry (refuted for GETSET, HMSET, PEXPIRE, XREADGROUP); replay theorem by a lock-step invariant over all multi-connection histories with MULTI/EXEC in database 0: database 0 of the redo equals the live one (values, TTL presence, deadlines at one clock reading) when no logged command leaves an expired entry; the same with a clock reading per event and a redo at any later reading (values and TTL presence; per-handler proof that the clock is invisible while nothing expires; consumer-group commands excluded); 10 refutation theorems. Tie: differential run incl. file bytes, plus a property oracle on the implementation's outputs alone (file ends on a frame boundary, logged commands = the executed state-changing commands that took effect by an independent catalogue, replay dump = live dump, restart recovers the dataset); in cl-* histories the oracle accepts no failure, in dx-* histories failures must fall into a known class",
        "trusted_base": SRV_TB + ["tools/gen_tables.py: extraction of is_write_command's name list (cross-checked by the table-tie case: one invocation per dispatch name, file inspected)",
                                  "harness/src/c11.rs: reading of <dir>/appendonly.aof, second-server replay, restart; the oracle's catalogue of state-changing commands (STATE_CHANGING)",
                                  "start-up (AofEngine::load) is modelled only as 'fails iff the file is not valid UTF-8, executes nothing'"],
        "assumptions": ["the differential histories and their redo run at one reading of the logical clock (no SLEEP); only long or zero TTLs are generated (expiry in real time is C02's subject); the theorems cover arbitrary clock readings",
                        "sorted sets, scripts (EVAL/EVALSHA) and blocking pops are outside this branch's server model: their classes are witnessed on the binary only (known_findings.json)",
                        "fsync policy (when bytes reach the disk) and BGREWRITEAOF (not implemented: it renames a file that does not exist) are not modelled",
                        "inputs in classes of C03/C16 that were repaired in /repo after this branch's models were written (HSET duplicate fields on a fresh key, LRANGE/LTRIM stop < -len, SINTER/SDIFF type check, XGROUP CREATE start ID / invalid ID, NOACK) are not generated"],
    },
    "C07": {
        "n": {"quick": 150, "thorough": 3000}, "diff_is_failure": True, "trivial_outs": {"i1", ""},
        "rule": "2-4 connections interleaving MULTI / queued string-family commands (valid, failing at run time, unknown) / EXEC / DISCARD / WATCH / UNWATCH / SELECT / QUIT / disconnects in a deterministic total order, followed by a dump from a fresh connection; one evaluation = one reply (EXEC arrays element-wise) compared with the model",
        "explanation": "theorems: queue inert, EXEC in order with one slot each, same as direct, state cleared; tie: differential interleaved histories",
        "trusted_base": SRV_TB, "assumptions": ["single command thread in the implementation (replication client thread absent: master role only)"],
    },
    "C08": {
        "n": {"quick": 80, "thorough": 2000}, "diff_is_failure": True, "trivial_outs": {"i1", ""},
        "rule": "catalogue: 38 commands (every write of the string/key family plus reads and failing variants) x 4 initial states of the watched key x {other connection on the watched key, same connection, other connection on other keys only} -> WATCH, command, MULTI, SET probe, EXEC, observe nil vs array and the probe; plus random 3-connection histories with WATCH/UNWATCH/MULTI/EXEC/DISCARD/SELECT and writers; one evaluation = one reply compared with the model",
        "explanation": "theorems: tracker soundness/completeness, EXEC abort rule, table obligations over the engine census; tie: exhaustive catalogue + random histories",
        "trusted_base": SRV_TB + ["tools/gen_tables.py: per-function census of mark_modified call sites in engine.rs"],
        "assumptions": ["list/set/hash/zset/stream writers are added to the catalogue as their families are merged"],
    },
    "C02": {
        "n": {"quick": 40, "thorough": 600}, "diff_is_failure": True, "judge": True, "trivial_outs": {"i1", ""}, "run_timeout": 2400,
        "rule": "sweeper paused through the VERIF hook; (a) random histories of TTL setters (PX 200/400, EX 1, SETEX, PSETEX, EXPIRE, PEXPIRE incl. <= 0), overwrites, PERSIST, RENAME, in-place modifications and reads on 4 keys (two sharing an engine shard), SLEEP 300 steps of the logical clock and full sweeper passes started at known instants, ending with a dump (VERIF INDEX 0 = key/stored deadline/indexed deadline/present, EXISTS/PTTL/GET); (b) for each of 13 racing commands x {TTL still set, TTL already cleared}: SET t PX 200, sleep, sweeper stopped between its scan and its deletions, the racing command, release, dump, another pass, dump; one evaluation = one reply or dump compared with the model; distinct = distinct (command, reply) pairs",
        "explanation": "theorems: never-early over all interleavings of the two sweeper phases with client commands, sweeper only removes, sweep completeness, lazy expiry of GET/EXISTS, TTL bookkeeping, TTL/PTTL replies; tie: stepped/gated real sweeper on a logical clock",
        "trusted_base": SRV_TB + ["the VERIF hook (cfg ferrous_verif): sweeper PAUSE/STEP/GATE/RELEASE/WAITING/PASSES and INDEX dump"],
        "assumptions": ["list/set/hash/zset/stream keys are covered as their families are merged", "the clock itself and the sweeper's 1 s period are not modelled (theorems hold for any period)"],
    },
    "C05": {
        "n": {"quick": 60, "thorough": 1200}, "diff_is_failure": True, "trivial_outs": {"i1", ""}, "run_timeout": 2400,
        "rule": "raw byte streams on one connection: 1-12 (sometimes 150-250) requests per write drawn from the string/key catalogue plus hostile shapes (CR LF inside command names and arguments, fake replies inside names, empty/null arrays, non-array frames, inline PING, nested arrays, 600-byte noise arguments), optionally followed by QUIT or by one of 8 protocol violations, sent whole / byte-at-a-time / cut inside CR LF / 2-6 random cuts; the harness collects everything the server sends until quiet, decodes it with its own RESP reader and compares the canonical frame sequence and the close flag with the model; then PING on the same and on another connection",
        "explanation": "theorems: one reply per frame, reads compose, segmentation independence, reply = one frame, client decodes exactly the replies; tie: raw-stream differential runs",
        "trusted_base": SRV_TB, "assumptions": ["requests contain no RESP3 double frames (f64 text oracle not used at connection level)", "a read never exceeds 8192 bytes in the implementation; pipelines with QUIT or a protocol violation are kept below that"],
    },
    "C06": {
        "n": {"quick": 2400, "thorough": 60000}, "diff_is_failure": True, "judge": True, "trivial_outs": set(), "shrink": True,
        "rule": "servers pre-loaded with a sentinel and one key of every type (string, integer, empty string, list, set, hash, sorted set incl. inf score, stream incl. an ID near u64::MAX with a group, 1000-element list); each probe is either a command: a name drawn from the dispatch table read from server.rs at run time, with 0-5 arguments drawn from keys of every type, 27 boundary numbers (0, +-1, i64/u64/usize/isize min/max and their neighbours, +-2^31, 2^32, 1e300, nan, inf, -0, empty, non-digits, 512 MB), option words, non-bulk and nested-array arguments; or raw hostile bytes (absurd declared lengths for * % ~ $, 100000 nested arrays, truncated frames, random bytes); after every probe a fresh connection must get PONG and the sentinel value within 4 s and the process must be alive; one evaluation = one probe; non-trivial/distinct = distinct probes (all are counted: every probe is followed by the liveness oracle)",
        "explanation": "theorems: guards imply in-range operations for the modelled handlers and the parser; tie: boundary enumeration with a liveness oracle against a live server process",
        "trusted_base": ["the liveness oracle of harness/src/c06.rs (PING + GET sentinel on a fresh connection, process status)"],
        "assumptions": ["deadlock, lock poisoning, starvation and physical memory exhaustion are outside what the model can exhibit (partial)", "SRANDMEMBER with a huge negative count performs |count| iterations (known finding, work not bounded)"],
    },
    "C20": {
        "n": {"quick": 400, "thorough": 6000},
        "judge": True,
        "trivial_outs": {"i0 i1"},
        "rule": "cases = fixed witnesses + random frame trees (serialize, then parse under every 2-split for short inputs, byte-at-a-time and random cuts) + random and exhaustive-short byte strings over the protocol alphabet; one evaluation = one SER or PARSE operation compared between RespParser/serialize_resp_frame and the extracted Gallina model; non-trivial = the parser produced at least one frame or an error (not just 'need more data'); distinct = distinct (operation, output) pairs",
        "explanation": "theorems: round-trip, chunking independence, totality (no Panic outcome in the model; depth-bounded), reservation bound; tie: differential run of the Rust codec against the extracted model + property oracle on the Rust outputs (round-trip, same result for all chunkings, no panic, allocation bounded by bytes in hand via a counting allocator)",
        "trusted_base": ["oracle: Rust std f64 <-> decimal text (the harness passes parse::<f64>/to_string results to the model as a table)"],
        "assumptions": ["RespParser is driven as the server drives it: feed, then parse until None or Err"],
    },
    "C14": {
        "n": {"quick": 600, "thorough": 8000},
        "judge": True,
        "trivial_outs": {"", "i0"},
        "rule": "cases = fixed witnesses (F-14a, F-05d, F-14b, the unit tests of pubsub.rs) + random multi-connection histories (2-5 connections; SUB/PSUB/UNSUB/PUNSUB named, all and empty; UNSUBALL; PUB; observers) over colliding pools of 10 channels and 20 patterns, each ending with a dump of every connection, every channel count and one publish per channel + the matcher on ALL (pattern, text) pairs over the alphabet {a b * ? \\} up to length 4x4 (quick) / 5x5 (thorough) + random longer pairs with texts derived from the pattern; one evaluation = one PubSubManager call (or one pattern against all texts) compared between ferrous::pubsub and the extracted Gallina model; receiver lists sorted by connection, the reported pattern of a connection with several matching patterns is an oracle checked for admissibility",
        "explanation": "theorems: maps-consistency invariant over all histories, matcher = declarative glob (unbounded), publish delivers to exactly the connections with a matching subscription, once per connection (so the per-subscription claim is refuted: c14_delivery_refuted; partial theorem for at most one matching subscription), acknowledgement counts, nothing after unsubscribe / unsubscribe_all; tie: in-process differential run of PubSubManager + pattern_matches against the extracted model; property oracle (Redis glob semantics, per-subscription deliveries, acknowledgement counts) on the implementation's outputs",
        "trusted_base": ["the server-level delivery of message frames (server.rs handle_publish / handle_subscribe) is not part of this check (lead's server model)"],
        "assumptions": ["PubSubManager is driven sequentially, as the single command thread of the server does"],
    },
    "C19": {
        "n": {"quick": 500, "thorough": 6000},
        "judge": True,
        "needs_server": False,
        "shards": 12,
        "trivial_outs": {"", "i0", "i1 i0"},
        "rule": "cases = the F-19a witness + a 1205-member set (cap 1000, examined bound) + in-process histories on StorageEngine (key spaces of 3-30 keys of all five value types; SCAN with COUNT from {0,1,2,3,4,5,7,10,20,100,1000,1001}, 17 MATCH patterns, 9 TYPE filters, cursors followed from the implementation's reply and odd cursors {len-1,len,len+1,2^63,2^64-1}; additions, deletions and (x- cases) expiries of keys between the calls of an iteration; HSCAN/SSCAN/ZSCAN over collections below and above COUNT, NOVALUES, wrong-type / missing / expired keys, member additions/removals between calls) + command-level histories over TCP (option parsing incl. missing values, bad counts, lower case, non-bulk arguments; cursor parsing; HSCAN/SSCAN/ZSCAN on missing and wrong-type keys), each TCP history ending with SCAN 0 COUNT 1000, KEYS *, DBSIZE; one evaluation = one engine call or one command compared with the extracted Gallina model; unordered fast-path replies sorted",
        "explanation": "theorems: static completeness (a full iteration over an unchanged key space returns exactly the matching live keys, each once), termination measure, soundness, completeness under modifications that sort at or after the position reached, refutation of the unrestricted claim (c19_concurrent_refuted, F-19a); tie: differential run of engine.rs scan/hscan/sscan/zscan and commands/scan.rs against the extracted model; property oracle: every key present throughout a complete iteration is returned (class scan-shift when a key below the position reached was added or deleted), nothing foreign is returned",
        "trusted_base": ["oracle: Rust std f64 Display for ZSCAN scores that are not integers below 2^53 (text taken from the implementation)", "MATCH on keys that are not valid UTF-8 goes through from_utf8_lossy in the implementation; the model matches bytes (generator: ASCII plus isolated invalid bytes)"],
        "assumptions": ["x- cases: real sleeps make short TTLs pass; a key that was given a short TTL is not written again in that case (sweeper timing)"],
    },
    "C15": {
        "n": {"quick": 400, "thorough": 5000},
        "judge": True, "needs_server": False, "shards": 8,
        "trivial_outs": set(),
        "rule": "cases = histories of XADD (auto IDs with bursts, explicit ascending / equal / smaller / future / malformed IDs), XDEL, XTRIM, XRANGE/XREVRANGE/XREAD with bounds below, inside, between and above the stored IDs with and without COUNT, XLEN, DEL/RENAME, arity and non-bulk errors, on 4 stream keys + a string key, each ending with a dump (TYPE, XLEN, XRANGE - +, XINFO, XPENDING per group, KEYS, DBSIZE); one evaluation = one command's canonical reply compared between the ferrous server (fresh process per history, TCP) and the extracted Gallina model; the ID of XADD * is passed to the model as an oracle and checked for admissibility",
        "explanation": "theorems: stream invariant (sorted, ids <= last_id, atomics and length counter agree) over all histories; auto IDs exceed every earlier ID for every clock reading; refused XADD changes nothing; XRANGE/XREVRANGE/XREAD equal the filter of the present entries outside the class xrange-end-below-first; XLEN = number of present entries; tie: differential run against the server + property oracle (BTreeMap reference driven by the implementation's replies)",
        "trusted_base": ["oracle: the wall-clock reading behind XADD * (the model accepts exactly the IDs some clock reading can produce)"],
        "assumptions": ["std's binary_search contract on a sorted duplicate-free Vec (sortedness is a proved invariant of the model)", "single command thread: compare_exchange_weak on the ID atomics never fails spuriously"],
    },
    "C16": {
        "n": {"quick": 400, "thorough": 5000},
        "judge": True, "needs_server": False, "shards": 8,
        "trivial_outs": set(),
        "rule": "cases = histories over 2 streams x 2 groups x 3 consumers: XGROUP CREATE/DESTROY/SETID/CREATECONSUMER/DELCONSUMER, XREADGROUP (> and explicit IDs, COUNT, NOACK, BLOCK, several keys), XACK (repeated, unknown IDs), XCLAIM (idle thresholds 0 / 200 ms / never, FORCE, JUSTID), XPENDING (summary, ranges, per consumer), XINFO, XADD/XDEL/XTRIM/DEL/RENAME in between, 450 ms sleeps for the idle thresholds, each ending with a dump of every group's pending state; one evaluation = one command's canonical reply compared between the ferrous server and the extracted Gallina model (idle times zeroed on both sides)",
        "explanation": "theorems: the four representations of the pending set agree over all histories of >-reads, XACK, XCLAIM, DELCONSUMER, CREATECONSUMER, DESTROY; > delivers in strictly increasing ID order, each entry once; XACK counts once; XPENDING summary equals the pending set; refuted: $ start, NOACK, explicit-ID read, SETID re-delivery",
        "trusted_base": ["idle times are compared through thresholds separated from the harness clock drift (80 ms) by 450 ms sleeps"],
        "assumptions": ["single command thread (no concurrent access to a group)"],
    },
}


def gen_tables():
    import subprocess, os, sys
    here = os.path.dirname(os.path.abspath(__file__))
    p = subprocess.run([sys.executable, os.path.join(here, "gen_tables.py")], stdout=subprocess.PIPE, stderr=subprocess.STDOUT, text=True)
    return p.returncode == 0, p.stdout[-500:]
