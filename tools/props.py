"""Per-property configuration of ./check."""
TRUSTED_BASE = [
    "Coq 8.16.1 kernel (coqc; coqchk in the thorough tier); vm_compute used in witness lemmas; native_compute not used",
    "no axioms declared by the development; Print Assumptions of every property theorem is recorded below",
    "extraction: Require Extraction + ExtrOcamlBasic only (bool, option, unit, list, prod, sumbool, sumor mapped to OCaml's; Z/positive/N stay inductive; no Extract Constant)",
    "ocaml/driver.ml (token parsing/printing, comparison), OCaml 4.13.1 ocamlopt",
    "harness/ (Rust): generators, canonicalisation, property oracle; tools/vlib.py + check (orchestration)",
    "the correspondence is differential testing: agreement of /repo with the model is sampled, not proved",
]

PROPS = {
    "C20": {
        "n": {"quick": 400, "thorough": 6000},
        "judge": True,
        "trivial_outs": {"i0 i1"},
        "rule": "cases = fixed witnesses + random frame trees (serialize, then parse under every 2-split for short inputs, byte-at-a-time and random cuts) + random and exhaustive-short byte strings over the protocol alphabet; one evaluation = one SER or PARSE operation compared between RespParser/serialize_resp_frame and the extracted Gallina model; non-trivial = the parser produced at least one frame or an error (not just 'need more data'); distinct = distinct (operation, output) pairs",
        "explanation": "theorems: round-trip, chunking independence, totality (no Panic outcome in the model; depth-bounded), reservation bound; tie: differential run of the Rust codec against the extracted model + property oracle on the Rust outputs (round-trip, same result for all chunkings, no panic, allocation bounded by bytes in hand via a counting allocator)",
        "trusted_base": ["oracle: Rust std f64 <-> decimal text (the harness passes parse::<f64>/to_string results to the model as a table)"],
        "assumptions": ["RespParser is driven as the server drives it: feed, then parse until None or Err"],
    },
    "C09": {
        "n": {"quick": 110, "thorough": 400},
        "judge": True,
        "shrink": False,
        "run_timeout": 2400,
        "trivial_outs": {"i1", "i0", ""},
        "rule": "one case = build operations through the storage API (all six types, sizes around 63/64/16383/16384 and 65536, binary keys and values incl. the stream marker, several databases, TTLs shorter and longer than the downtime), then DUMP, implementation SAVE (its bytes are loaded by the model and re-saved by the model: must reproduce the file byte for byte), restart of the implementation on that file, DUMP, model SAVE with a simulated downtime, restart of the implementation on the model's file, DUMP; one evaluation = one operation compared between the implementation and the extracted Gallina model; non-trivial = an operation whose output is not a bare status",
        "explanation": "theorems: length and string encoding round-trips (all 0 <= n < 2^32), whole-dataset round-trip load (save d) = age d under a boolean guard, refutation lemmas for what the guard excludes; tie: both directions in-process (implementation save -> model load -> model re-save = same bytes; model save -> implementation load), plus the property oracle on the implementation's own dumps before and after save+restart",
        "trusted_base": ["the harness reads the clocks (Instant, SystemTime) around each operation and passes them to the model; TTLs are compared within the measured elapsed time"],
        "assumptions": ["RdbEngine::save / load are driven as the server drives them (SAVE command, start-up load) on a quiescent engine"],
    },
    "C10": {
        "n": {"quick": 70, "thorough": 160},
        "judge": True,
        "shrink": False,
        "run_timeout": 2400,
        "trivial_outs": {"i1", "i0", ""},
        "rule": "cases = crafted damaged files (truncated header, bad magic/version, seconds-resolution expiry, database index 16 and 2^32-1, unknown type, invalid length form, duplicate keys of equal and different types, empty collections, NaN duplicates, malformed stream IDs and field counts) loaded and dumped; datasets of all types written by the implementation and by the model, then EVERY prefix and single-byte corruptions at EVERY position (8 absolute values + 4 xor masks per position; in the thorough tier 12 + 16, and all 255 other byte values for 16 of the files) loaded in-process under catch_unwind with the counting allocator: per variant the load status, an allocation-beyond-file-length flag and a hash of the loaded dataset are compared with the extracted model; a save whose temporary file cannot be opened (dump must stay byte-identical); one evaluation = one operation (a SWEEP operation = thousands of loads)",
        "explanation": "theorems: a save failing at any write leaves the dump unchanged and a later save succeeds; at every instant the dump is a complete output of one save; the model loader never yields Panic without overflow checks (release profile) and does with them (refutation: stream field count >= 2^63); the allocation bound reserved <= k*|file| is refuted (read_string allocates the declared length first); tie: differential corruption sweep + property oracle (no panic, no allocation far beyond the file length)",
        "trusted_base": ["counting global allocator of the harness (largest single request during a load)"],
        "assumptions": ["fail-the-n-th-write injection needs patches/hook-rdb-failat.diff; until it is applied only the open-failure crash point is exercised on the implementation", "per-key value/TTL tearing under concurrent writers (part 2 of the property) is not covered"],
    },
}
