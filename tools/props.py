"""Per-property configuration of ./check."""
TRUSTED_BASE = [
    "Coq 8.16.1 kernel (coqc; coqchk in the thorough tier); vm_compute used in witness lemmas; native_compute not used",
    "no axioms declared by the development; Print Assumptions of every property theorem is recorded below",
    "extraction: Require Extraction + ExtrOcamlBasic only (bool, option, unit, list, prod, sumbool, sumor mapped to OCaml's; Z/positive/N stay inductive; no Extract Constant)",
    "ocaml/driver.ml (token parsing/printing, comparison), OCaml 4.13.1 ocamlopt",
    "harness/ (Rust): generators, canonicalisation, property oracle; tools/vlib.py + check (orchestration)",
    "the correspondence is differential testing: agreement of /repo with the model is sampled, not proved",
]

PROPS = {
    "C20": {
        "n": {"quick": 400, "thorough": 6000},
        "judge": True,
        "trivial_outs": {"i0 i1"},
        "rule": "cases = fixed witnesses + random frame trees (serialize, then parse under every 2-split for short inputs, byte-at-a-time and random cuts) + random and exhaustive-short byte strings over the protocol alphabet; one evaluation = one SER or PARSE operation compared between RespParser/serialize_resp_frame and the extracted Gallina model; non-trivial = the parser produced at least one frame or an error (not just 'need more data'); distinct = distinct (operation, output) pairs",
        "explanation": "theorems: round-trip, chunking independence, totality (no Panic outcome in the model; depth-bounded), reservation bound; tie: differential run of the Rust codec against the extracted model + property oracle on the Rust outputs (round-trip, same result for all chunkings, no panic, allocation bounded by bytes in hand via a counting allocator)",
        "trusted_base": ["oracle: Rust std f64 <-> decimal text (the harness passes parse::<f64>/to_string results to the model as a table)"],
        "assumptions": ["RespParser is driven as the server drives it: feed, then parse until None or Err"],
    },
    "C15": {
        "n": {"quick": 400, "thorough": 5000},
        "judge": True, "needs_server": False, "shards": 8,
        "trivial_outs": set(),
        "rule": "cases = histories of XADD (auto IDs with bursts, explicit ascending / equal / smaller / future / malformed IDs), XDEL, XTRIM, XRANGE/XREVRANGE/XREAD with bounds below, inside, between and above the stored IDs with and without COUNT, XLEN, DEL/RENAME, arity and non-bulk errors, on 4 stream keys + a string key, each ending with a dump (TYPE, XLEN, XRANGE - +, XINFO, XPENDING per group, KEYS, DBSIZE); one evaluation = one command's canonical reply compared between the ferrous server (fresh process per history, TCP) and the extracted Gallina model; the ID of XADD * is passed to the model as an oracle and checked for admissibility",
        "explanation": "theorems: stream invariant (sorted, ids <= last_id, atomics and length counter agree) over all histories; auto IDs exceed every earlier ID for every clock reading; refused XADD changes nothing; XRANGE/XREVRANGE/XREAD equal the filter of the present entries outside the class xrange-end-below-first; XLEN = number of present entries; tie: differential run against the server + property oracle (BTreeMap reference driven by the implementation's replies)",
        "trusted_base": ["oracle: the wall-clock reading behind XADD * (the model accepts exactly the IDs some clock reading can produce)"],
        "assumptions": ["std's binary_search contract on a sorted duplicate-free Vec (sortedness is a proved invariant of the model)", "single command thread: compare_exchange_weak on the ID atomics never fails spuriously"],
    },
    "C16": {
        "n": {"quick": 400, "thorough": 5000},
        "judge": True, "needs_server": False, "shards": 8,
        "trivial_outs": set(),
        "rule": "cases = histories over 2 streams x 2 groups x 3 consumers: XGROUP CREATE/DESTROY/SETID/CREATECONSUMER/DELCONSUMER, XREADGROUP (> and explicit IDs, COUNT, NOACK, BLOCK, several keys), XACK (repeated, unknown IDs), XCLAIM (idle thresholds 0 / 200 ms / never, FORCE, JUSTID), XPENDING (summary, ranges, per consumer), XINFO, XADD/XDEL/XTRIM/DEL/RENAME in between, 450 ms sleeps for the idle thresholds, each ending with a dump of every group's pending state; one evaluation = one command's canonical reply compared between the ferrous server and the extracted Gallina model (idle times zeroed on both sides)",
        "explanation": "theorems: the four representations of the pending set agree over all histories of >-reads, XACK, XCLAIM, DELCONSUMER, CREATECONSUMER, DESTROY; > delivers in strictly increasing ID order, each entry once; XACK counts once; XPENDING summary equals the pending set; refuted: $ start, NOACK, explicit-ID read, SETID re-delivery",
        "trusted_base": ["idle times are compared through thresholds separated from the harness clock drift (80 ms) by 450 ms sleeps"],
        "assumptions": ["single command thread (no concurrent access to a group)"],
    },
}
