#!/usr/bin/env python3
"""tools/register.py <Cxx> <level text> | <level note>  -- add/replace a check entry in MANIFEST.json"""
import json, sys, os
V = os.path.dirname(os.path.dirname(os.path.abspath(__file__)))
pid, text, note = sys.argv[1], sys.argv[2], sys.argv[3]
p = os.path.join(V, 'MANIFEST.json'); m = json.load(open(p))
m['checks'] = [c for c in m['checks'] if c['property_id'] != pid]
m['checks'].append({"property_id": pid, "quick_cmd": "./check %s --tier quick" % pid, "thorough_cmd": "./check %s --tier thorough" % pid,
  "evidence_file": "evidence/%s.json" % pid, "replay_cmd_template": "./check %s --replay {path}" % pid, "engine": "coq-model",
  "level_claimed": {"category": "proof", "text": text, "design_ref": "DESIGN.md section 3 %s" % pid},
  "level_note": note, "technique": "Rocq (Coq 8.16) proof over an executable model + extracted-model correspondence check"})
m['checks'].sort(key=lambda c: c['property_id'])
m['not_applicable'] = [x for x in m.get('not_applicable', []) if x['property_id'] != pid]
for e in m['engines']:
    if pid not in e['serves_properties']: e['serves_properties'].append(pid); e['serves_properties'].sort()
json.dump(m, open(p, 'w'), indent=1)
print("registered", pid)
