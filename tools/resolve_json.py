import json, subprocess, sys
def show(stage,f):
    r=subprocess.run(['git','show',':%d:%s'%(stage,f)],capture_output=True,text=True)
    return json.loads(r.stdout) if r.returncode==0 else None
for f in ['known_findings.json','MANIFEST.json']:
    ours=show(2,f); theirs=show(3,f); base=show(1,f)
    if ours is None or theirs is None: continue
    if f=='known_findings.json':
        key=lambda x:(x['property'],x.get('class'),x.get('commit') if x.get('status')=='fixed' and x.get('class') is None else None)
        bmap={key(x):json.dumps(x,sort_keys=True) for x in (base or {'findings':[]})['findings']}
        omap={key(x):x for x in ours['findings']}
        tmap={key(x):x for x in theirs['findings']}
        out=[]
        seen=set()
        for x in ours['findings']:
            k=key(x); seen.add(k)
            if k in tmap and json.dumps(tmap[k],sort_keys=True)!=bmap.get(k) and json.dumps(x,sort_keys=True)==bmap.get(k):
                out.append(tmap[k])        # they changed it, we did not
            elif k not in tmap and k in bmap and json.dumps(x,sort_keys=True)==bmap.get(k):
                pass                        # they deleted it, we did not change it
            else:
                out.append(x)
        for x in theirs['findings']:
            k=key(x)
            if k not in seen and k not in bmap: out.append(x)
        ours['findings']=out
    else:
        ids={c['property_id']:i for i,c in enumerate(ours['checks'])}
        bch={c['property_id']:json.dumps(c,sort_keys=True) for c in (base or {'checks':[]})['checks']}
        for c in theirs['checks']:
            pid=c['property_id']
            if pid not in ids: ours['checks'].append(c)
            elif json.dumps(c,sort_keys=True)!=bch.get(pid) and json.dumps(ours['checks'][ids[pid]],sort_keys=True)==bch.get(pid):
                ours['checks'][ids[pid]]=c
        ours['checks'].sort(key=lambda c:c['property_id'])
        claimed={c['property_id'] for c in ours['checks']}
        ours['not_applicable']=[x for x in ours['not_applicable'] if x['property_id'] not in claimed]
        for e in ours['engines']:
            for p in claimed:
                if p not in e['serves_properties']: e['serves_properties'].append(p)
            e['serves_properties'].sort()
    json.dump(ours,open(f,'w'),indent=1)
    print('resolved',f)
