#!/usr/bin/env python3
"""Development aid: prints DESIGN.md's end-of-session table from evidence/*.json and known_findings.json."""
import json, os, collections
V = os.path.dirname(os.path.dirname(os.path.abspath(__file__)))
kf = json.load(open(os.path.join(V, "known_findings.json")))["findings"]
fixed = collections.Counter(f["property"] for f in kf if f.get("status") == "fixed")
opened = collections.defaultdict(list)
for f in kf:
    if f.get("status") == "open": opened[f["property"]].append(f.get("class", "?"))
print("| property | theorems (all closed under the global context) | defects repaired in /repo | open classes (printed as KNOWN-FINDING, exit 0) |")
print("|---|---|---|---|")
tot = 0
for i in range(1, 21):
    p = "C%02d" % i
    ev = json.load(open(os.path.join(V, "evidence", p + ".json")))
    n = ev["coverage"].get("obligations", 0); tot += n
    print("| %s | %d | %d | %s |" % (p, n, fixed[p], ", ".join(opened[p]) or "-"))
print("total theorems:", tot, " fixed entries:", sum(fixed.values()), " open:", sum(len(v) for v in opened.values()))
