#!/usr/bin/env python3
"""Tally of command x outcome classes of ran cases (stdin: cases with OUT lines).
Outcome class = reply kind (+ first word of an error, emptiness of arrays, sign of integers)."""
import sys, collections
def toks(l): return l.split()
def dec(t, p):
    tag = int(t[p][1:]); p += 1
    if tag in (0, 1, 3):
        b = bytes.fromhex(t[p][1:]); return (tag, b), p + 1
    if tag in (2, 9, 10): return (tag, int(t[p][1:])), p + 1
    if tag in (5, 11, 12):
        n = int(t[p][1:]); p += 1; l = []
        for _ in range(n):
            x, p = dec(t, p); l.append(x)
        return (tag, l), p
    return (tag, None), p
def klass(v):
    tag, x = v
    if tag == 0: return "+" + x.decode("latin1")
    if tag == 1: return "-" + x.split(b" ")[0].decode("latin1")
    if tag == 2: return "int0" if x == 0 else ("int+" if x > 0 else "int-")
    if tag == 3: return "bulk"
    if tag == 4: return "nil"
    if tag == 5: return "arr0" if not x else ("arr1" if len(x) == 1 else "arrN")
    return "t%d" % tag
tab = collections.Counter(); name = None
for l in sys.stdin:
    l = l.rstrip("\n")
    if l.startswith("OP "):
        t = toks(l[3:]); name = None
        if t and t[0] == "b" + b"CMD".hex():
            try:
                v, _ = dec(t, 3)
                if v[0] == 5 and v[1] and v[1][0][0] == 3: name = v[1][0][1].upper().decode("latin1")
                else: name = "?"
            except Exception: name = "?"
    elif l.startswith("OUT") and name:
        t = toks(l[3:])
        try:
            if t and t[0].startswith("i"): v, _ = dec(t, 0); k = klass(v)
            else: k = bytes.fromhex(t[0][1:]).decode("latin1") if t else "none"
        except Exception: k = "?"
        tab[(name, k)] += 1; name = None
by = collections.defaultdict(list)
for (n, k), c in sorted(tab.items()): by[n].append("%s=%d" % (k, c))
for n in sorted(by): print("%-12s %s" % (n, " ".join(by[n])))
