#!/usr/bin/env python3
"""Development aid: ./tools/tally.py <Cxx> [--seed N] [--n N]
Generates cases, runs them on the implementation and the extracted model, prints the
disagreements and a tally of command x outcome classes (generator coverage)."""
import sys, os, collections, argparse
sys.path.insert(0, os.path.dirname(os.path.abspath(__file__)))
import vlib

def dec(toks, pos=0):
    t = toks[pos]
    tag = int(t[1:])
    if tag in (0, 1, 3): return (tag, bytes.fromhex(toks[pos + 1][1:])), pos + 2
    if tag == 2: return (2, int(toks[pos + 1][1:])), pos + 2
    if tag in (4, 6, 7, 8): return (tag, None), pos + 1
    if tag in (5, 11, 12):
        n = int(toks[pos + 1][1:]); pos += 2; l = []
        for _ in range(n):
            x, pos = dec(toks, pos); l.append(x)
        return (tag, l), pos
    if tag in (9, 10): return (tag, int(toks[pos + 1][1:])), pos + 2
    raise ValueError(t)

def outcome(out):
    toks = out.split()
    if not toks: return "none"
    if toks[0][0] == "b": return bytes.fromhex(toks[0][1:]).decode()
    try: (tag, v), _ = dec(toks)
    except Exception: return "undecodable"
    if tag == 1: return "err:" + v.split(b" ")[0].decode(errors="replace")
    if tag == 2: return "int0" if v == 0 else ("int+" if v > 0 else "int-")
    if tag == 0: return "simple"
    if tag == 3: return "bulk"
    if tag == 4: return "nil"
    if tag == 6: return "nilarray"
    if tag == 5: return "array0" if not v else ("array1" if len(v) == 1 else "array+")
    return "tag%d" % tag

def opname(op):
    toks = op.split()
    if bytes.fromhex(toks[0][1:]) != b"CMD": return None
    try: (tag, v), _ = dec(toks, 3)
    except Exception: return "?"
    if tag != 5 or not v or v[0][0] != 3: return "?"
    name = v[0][1].upper().decode(errors="replace")
    if name in ("XGROUP", "XINFO") and len(v) > 1 and v[1][0] == 3: name += " " + v[1][1].upper().decode(errors="replace")
    if name == "XADD" and len(v) > 2 and v[2][0] == 3: name += " *" if v[2][1] == b"*" else " id"
    if name == "XREADGROUP":
        args = [x[1] for x in v if x[0] == 3]
        name += " >" if b">" in args else " id"
        if any(a.upper() == b"NOACK" for a in args): name += " NOACK"
    if name == "XPENDING": name += " ext" if len(v) > 3 else ""
    return name

def main():
    ap = argparse.ArgumentParser(); ap.add_argument("prop"); ap.add_argument("--seed", type=int, default=1); ap.add_argument("--n", type=int, default=200)
    ap.add_argument("--keep", default=""); ap.add_argument("--dump", type=int, default=3)
    a = ap.parse_args()
    hb = os.environ.get("VERIF_HB") or vlib.harness_bin(); drv = os.path.join(vlib.BUILD, "ocaml", "driver")
    rc, out = vlib.sh([hb, "gen", a.prop, "--seed", str(a.seed), "--n", str(a.n)], timeout=600)
    cases = vlib.split_cases(out)
    res = vlib.run_sharded("%s run %s" % (hb, a.prop), cases, shards=6, cwd=vlib.BUILD)
    ran = []
    for rc, o, e in res:
        if rc != 0: print("run shard failed", rc, (e or "")[-500:])
        ran += vlib.split_cases(o)
    if a.keep: open(a.keep, "w").write("".join(ran))
    res = vlib.run_sharded("%s %s" % (drv, a.prop), ran, shards=6)
    ndiff = 0; shown = 0
    for rc, o, e in res:
        if rc != 0: print("driver failed", rc, (e or "")[-500:])
        lines = o.splitlines()
        for i, l in enumerate(lines):
            if l.startswith("DIFF"):
                ndiff += 1
                if shown < a.dump:
                    shown += 1
                    for x in lines[i:i + 4]:
                        if x.startswith("  "):
                            k, rest = x.split(None, 1)
                            print("  ", k, vlib.tok_pretty(rest, 600))
                        else: print(x)
    tally = collections.Counter(); nops = 0
    for c in ran:
        cid, ops, outs = vlib.parse_case(c)
        for op, o in zip(ops, outs):
            n = opname(op)
            if n is None: continue
            nops += 1; tally[(n, outcome(o))] += 1
    rc, jo = vlib.sh([hb, "judge", a.prop], inp="".join(ran), timeout=600)
    jl = [l for l in jo.splitlines() if l.startswith("FAIL")]
    byname = collections.defaultdict(list)
    for (n, oc), k in sorted(tally.items()): byname[n].append("%s=%d" % (oc, k))
    for n in sorted(byname): print("%-28s %s" % (n, " ".join(byname[n])))
    jc = collections.Counter((l.split("class=")[1].split()[0] if "class=" in l else "UNCLASSIFIED") for l in jl)
    print("cases=%d cmds=%d DIFFS=%d judge_fails=%s" % (len(ran), nops, ndiff, dict(jc)))
    for l in [l for l in jl if "class=" not in l][:5]: print(l)

main()
