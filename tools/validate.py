#!/usr/bin/env python3
"""Validate MANIFEST.json and evidence files against the schemas (run with python3-vt: needs jsonschema)."""
import json, sys, glob, os, jsonschema
V = os.path.dirname(os.path.dirname(os.path.abspath(__file__)))
jsonschema.validate(json.load(open(os.path.join(V, 'MANIFEST.json'))), json.load(open('/root/.vp/MANIFEST.schema.json')))
es = json.load(open('/root/.vp/EVIDENCE.schema.json'))
for f in sorted(glob.glob(os.path.join(V, 'evidence', '*.json'))):
    jsonschema.validate(json.load(open(f)), es)
    print('ok', f)
print('manifest ok')
