"""Shared machinery of /verif/check: builds, audit, sharded runs, decision, evidence."""
import hashlib, json, os, re, subprocess, sys, time, shutil, glob

VERIF = os.path.dirname(os.path.dirname(os.path.abspath(__file__)))
REPO = os.environ.get("VERIF_REPO", "/repo")
BUILD = os.path.join(VERIF, "build")
COQ = os.path.join(VERIF, "coq")
NPROC = 16
ENV = dict(os.environ, CARGO_NET_OFFLINE="true", CARGO_TARGET_DIR=os.path.join(BUILD, "target"),
           RUSTFLAGS="--cfg ferrous_verif")

ALLOWED_AXIOMS = {
    # standard-library axioms only (named in DESIGN.md section 2.8); none declared here
    "ClassicalDedekindReals.sig_not_dec", "ClassicalDedekindReals.sig_forall_dec",
    "FunctionalExtensionality.functional_extensionality_dep", "Classical_Prop.classic",
    "sig_not_dec", "sig_forall_dec", "functional_extensionality_dep", "classic",
}
FORBIDDEN = re.compile(r"\b(Admitted|admit|Axiom|Axioms|Parameter|Parameters|Conjecture|Conjectures|Abort All)\b|"
                       r"Unset\s+Guard|bypass_check|type-in-type|impredicative-set|Admit\s+Obligations|"
                       r"Unset\s+Universe\s+Checking|Unset\s+Positivity")

def sh(cmd, cwd=None, timeout=None, env=None, inp=None):
    p = subprocess.run(cmd, shell=isinstance(cmd, str), cwd=cwd, timeout=timeout, env=env or ENV,
                       input=inp, stdout=subprocess.PIPE, stderr=subprocess.STDOUT, text=True)
    return p.returncode, p.stdout

def log(*a):
    print(*a, flush=True)

# ---------------------------------------------------------------- Coq side
def coq_sources():
    out = []
    for root, _, files in os.walk(COQ):
        for f in files:
            if f.endswith(".v"):
                out.append(os.path.join(root, f))
    return sorted(out)

def strip_comments(s):
    out, depth, i = [], 0, 0
    while i < len(s):
        if s.startswith("(*", i):
            depth += 1; i += 2
        elif s.startswith("*)", i) and depth > 0:
            depth -= 1; i += 2
        else:
            if depth == 0:
                out.append(s[i])
            i += 1
    return "".join(out)

def grep_forbidden():
    bad = []
    for f in coq_sources():
        txt = strip_comments(open(f).read())
        # Section-local Variable/Hypothesis are fine; top-level ones are not used in this development
        for m in FORBIDDEN.finditer(txt):
            bad.append("%s: %s" % (os.path.relpath(f, VERIF), m.group(0)))
    return bad

def ensure_makefile():
    mk = os.path.join(COQ, "Makefile")
    cp = os.path.join(COQ, "_CoqProject")
    if not os.path.exists(mk) or os.path.getmtime(mk) < os.path.getmtime(cp):
        rc, out = sh("coq_makefile -f _CoqProject -o Makefile", cwd=COQ, timeout=120)
        if rc != 0:
            raise RuntimeError("coq_makefile failed: " + out)

def coq_make(target=None, timeout=1500):
    """Full .vo build (never -vos) of one target or of everything."""
    ensure_makefile()
    cmd = "timeout %d make -j%d %s" % (timeout, NPROC, target or "")
    rc, out = sh(cmd, cwd=COQ, timeout=timeout + 30)
    return rc == 0, out

def theorems_of(prop):
    f = os.path.join(COQ, "Props", prop + ".v")
    txt = strip_comments(open(f).read())
    return re.findall(r"^\s*Theorem\s+([A-Za-z0-9_']+)", txt, re.M)

def audit(prop):
    """Print Assumptions of every property theorem, compared with the allow-list."""
    names = theorems_of(prop)
    d = os.path.join(BUILD, "audit"); os.makedirs(d, exist_ok=True)
    f = os.path.join(d, "Audit_%s.v" % prop)
    with open(f, "w") as w:
        w.write("From Ferrous Require Import Props.%s.\n" % prop)
        for n in names:
            w.write('Goal True. idtac "@@THM %s". exact I. Qed.\nPrint Assumptions %s.\n' % (n, n))
    rc, out = sh("timeout 300 coqc -Q %s Ferrous %s" % (COQ, f), cwd=d, timeout=330)
    res = {"theorems": names, "axioms": {}, "ok": rc == 0, "log": out[-2000:] if rc != 0 else ""}
    cur = None
    for line in out.splitlines():
        m = re.match(r"@@THM (\S+)", line)
        if m:
            cur = m.group(1); res["axioms"][cur] = []; continue
        if cur is None:
            continue
        # an axiom is listed as "name : type" or, when the type is long, as "name" alone with the type
        # on the following (indented) lines
        m = re.match(r"^([A-Za-z_][A-Za-z0-9_.']*)\s*(:|$)", line)
        if m and not line.startswith(" ") and m.group(1) != "Axioms":   # "Axioms:" is the header line
            res["axioms"][cur].append(m.group(1))
    bad = []
    for t, axs in res["axioms"].items():
        for a in axs:
            if a not in ALLOWED_AXIOMS:
                bad.append("%s depends on %s" % (t, a))
    if set(res["axioms"].keys()) != set(names):
        bad.append("audit did not report every theorem")
    res["bad"] = bad
    return res

def file_hash(paths):
    h = hashlib.sha256()
    for p in sorted(paths):
        h.update(p.encode()); h.update(open(p, "rb").read())
    return h.hexdigest()

def build_driver():
    """Extraction (ExtrOcamlBasic only) + OCaml driver; rebuilt when any model source changed."""
    d = os.path.join(BUILD, "ocaml"); os.makedirs(d, exist_ok=True)
    srcs = [p for p in coq_sources() if "/Model/" in p or "/Base/" in p or "/Extract/" in p or p.endswith("/Generated.v")]
    srcs.append(os.path.join(VERIF, "ocaml", "driver.ml"))
    hv = file_hash(srcs)
    stamp = os.path.join(d, "stamp")
    if os.path.exists(stamp) and open(stamp).read() == hv and os.path.exists(os.path.join(d, "driver")):
        return True, "cached"
    ok, out = coq_make("Model/Run.vo")
    if not ok:
        return False, out
    rc, out = sh("timeout 600 coqc -Q %s Ferrous %s" % (COQ, os.path.join(COQ, "Extract", "Extract.v")), cwd=d, timeout=630)
    if rc != 0:
        return False, out
    shutil.copy(os.path.join(VERIF, "ocaml", "driver.ml"), d)
    rc, out = sh("timeout 900 ocamlfind ocamlopt -O2 -w -a model.mli model.ml driver.ml -o driver", cwd=d, timeout=930)
    if rc != 0:
        return False, out
    open(stamp, "w").write(hv)
    return True, "rebuilt"

# ---------------------------------------------------------------- Rust side
def build_harness(release=False):
    lock_src = os.path.join(REPO, "Cargo.lock")
    lock_dst = os.path.join(VERIF, "harness", "Cargo.lock")
    if os.path.exists(lock_src) and not os.path.exists(lock_dst):
        shutil.copy(lock_src, lock_dst)
    cmd = "timeout 1500 cargo build --offline" + (" --release" if release else "")
    rc, out = sh(cmd, cwd=os.path.join(VERIF, "harness"), timeout=1530)
    lines = out.splitlines()
    keep = []
    for k, l in enumerate(lines):
        if l.startswith("error"):
            keep += lines[k:k + 8]
    errs = "\n".join(keep)[-3000:]
    return rc == 0, errs if rc != 0 else ""

def harness_bin(release=False):
    return os.path.join(BUILD, "target", "release" if release else "debug", "verif-harness")

def build_server(release=False):
    """The ferrous binary itself, from /repo's working tree, hooks on."""
    cmd = "timeout 1500 cargo build --offline --bin ferrous" + (" --release" if release else "")
    env = dict(ENV)
    rc, out = sh(cmd, cwd=REPO, timeout=1530, env=env)
    return rc == 0, out[-3000:] if rc != 0 else ""

def server_bin(release=False):
    return os.path.join(BUILD, "target", "release" if release else "debug", "ferrous")

# ---------------------------------------------------------------- cases
def split_cases(text):
    cases, cur = [], []
    for l in text.splitlines():
        cur.append(l)
        if l == "END":
            cases.append("\n".join(cur) + "\n"); cur = []
    return cases

def run_sharded(cmd, cases, shards=NPROC, timeout=3000, cwd=None):
    """Run `cmd` over the cases split into shards (stdin -> stdout), in parallel."""
    shards = max(1, min(shards, len(cases)))
    chunks = [cases[i::shards] for i in range(shards)]
    procs = []
    for ch in chunks:
        p = subprocess.Popen(cmd, shell=True, cwd=cwd, env=ENV, stdin=subprocess.PIPE, stdout=subprocess.PIPE,
                             stderr=subprocess.PIPE, text=True)
        procs.append((p, "".join(ch)))
    import threading
    outs = [None] * len(procs)
    def work(k):
        p, inp = procs[k]
        try:
            o, e = p.communicate(inp, timeout=timeout)
            outs[k] = (p.returncode, o, e)
        except subprocess.TimeoutExpired:
            p.kill(); outs[k] = (124, "", "timeout")
    ths = [threading.Thread(target=work, args=(k,)) for k in range(len(procs))]
    [t.start() for t in ths]; [t.join() for t in ths]
    return outs

def parse_case(text):
    cid, ops, outs = None, [], []
    for l in text.splitlines():
        if l.startswith("CASE"): cid = l[4:].strip()
        elif l.startswith("OP"): ops.append(l[2:].strip())
        elif l.startswith("OUT"): outs.append(l[3:].strip())
    return cid, ops, outs

def fmt_case(cid, ops, outs=None):
    s = ["CASE %s" % cid]
    for k, op in enumerate(ops):
        s.append(("OP " + op).rstrip())
        if outs is not None and k < len(outs):
            s.append(("OUT " + outs[k]).rstrip())
    s.append("END")
    return "\n".join(s) + "\n"

def tok_pretty(line, limit=200):
    """Human-readable rendering of a token line for evidence samples."""
    out = []
    for w in line.split():
        if w[0] == "i":
            out.append(w[1:])
        else:
            try:
                b = bytes.fromhex(w[1:])
                out.append(repr(b)[1:])
            except ValueError:
                out.append(w)
    s = " ".join(out)
    return s if len(s) <= limit else s[:limit] + "..."

# ---------------------------------------------------------------- findings / evidence
def load_findings():
    p = os.path.join(VERIF, "known_findings.json")
    if not os.path.exists(p):
        return []
    return json.load(open(p))["findings"]

def write_evidence(prop, ev):
    d = os.path.join(VERIF, "evidence"); os.makedirs(d, exist_ok=True)
    with open(os.path.join(d, prop + ".json"), "w") as w:
        json.dump(ev, w, indent=1)

def write_replay(prop, payload):
    d = os.path.join(VERIF, "replays"); os.makedirs(d, exist_ok=True)
    h = hashlib.sha256(json.dumps(payload, sort_keys=True).encode()).hexdigest()[:12]
    p = os.path.join(d, "%s-%s.json" % (prop, h))
    with open(p, "w") as w:
        json.dump(payload, w, indent=1)
    return p
